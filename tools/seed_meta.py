#!/usr/bin/env python3
"""seed_meta.py <id> <property> <detected:yes|no> <by-which-check/relation> : write /verif/seeded/<id>/meta.json from notes.txt"""
import json, os, sys
i, prop, det, by = sys.argv[1:5]
d = f"/verif/seeded/{i}"
notes = open(os.path.join(d, "notes.txt")).read() if os.path.exists(os.path.join(d, "notes.txt")) else ""
meta = {"id": i, "breaks_property": prop,
        "needs_to_manifest": notes.strip()[:1500],
        "origin": "independent sub-agent given only the property text and a scratch worktree",
        "confirmed": "tools/validate_mutant.sh in a scratch worktree: compiles; ctest 194/194 with the change; demo.cpp FAILs with it and PASSes without",
        "ran": f"tools/run_seeded.sh {i} {prop} quick  (git -C /repo apply patch.diff; ./check {prop} quick; git -C /repo checkout -- .)",
        "detected": det == "yes", "detected_by": by}
json.dump(meta, open(os.path.join(d, "meta.json"), "w"), indent=1)
