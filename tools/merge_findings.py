#!/usr/bin/env python3
"""merge_findings.py <branch>: resolve a known_findings.json merge conflict by taking ours + entries of <branch> whose id is new"""
import json, subprocess, sys
b = sys.argv[1]
ours = json.loads(subprocess.run(['git', 'show', 'HEAD:known_findings.json'], capture_output=True, text=True).stdout)
theirs = json.loads(subprocess.run(['git', 'show', b + ':known_findings.json'], capture_output=True, text=True).stdout)
ids = {f['id'] for f in ours['findings']}
for f in theirs['findings']:
    if f['id'] not in ids:
        ours['findings'].append(f); print("added", f['id'])
json.dump(ours, open('known_findings.json', 'w'), indent=1)
