#!/usr/bin/env python3
"""effects.py — effect table of the library for property C14, extracted from the CURRENT sources.

For every translation unit  clang++-14 -fsyntax-only -Xclang -ast-dump=json -Xclang -ast-dump-filter=GeographicLib
gives the typed AST of the namespace.  From it:
  (a) `mutable` data members,
  (b) variables of static storage duration (namespace scope, static members, function-local statics), with their
      const-ness,
  (c) `const_cast` expressions,
  (d) for every function with a body: the tracked locations (a, non-constexpr b) it reads / writes directly, its calls
      (with the `if` conditions they are nested in), and whether it hands out a non-const reference to a location.
A fixpoint over the call graph (within the library) gives, for every const member function and every static member
function, the set of tracked locations it transitively reads and writes.  A write keeps a *kind*:
  plain                      no recognised guard
  missGuarded                the write (or the call that leads to it) sits in the then-branch of an `if` whose condition
                             reads the very location that is written  (fill-on-miss cache)
  flagGuarded <Class::flag>  it sits under `if (!flag)` (or after `if (flag) throw/return`), flag an immutable bool member
The analysis is deliberately conservative: every use of a tracked location that is not recognisably a read (value
load, const member call, binding to a const reference / pointer-to-const) counts as a write.

Stand-alone:  tools/effects.py <repo>   prints the table.
"""
import concurrent.futures as cf
import glob, hashlib, json, os, pickle, re, subprocess, sys

VERIF = os.path.dirname(os.path.dirname(os.path.abspath(__file__)))
INC = os.path.join(VERIF, "_cache", "inc")
CLANG = "clang++-14"
VERSION = "17"          # bump to invalidate the per-file cache

ACCESSORS = {"operator[]", "at", "data", "begin", "end", "front", "back", "rbegin", "rend", "operator*", "operator->", "get", "cbegin", "cend", "c_str", "size", "empty"}
PASS = {"ParenExpr", "MaterializeTemporaryExpr", "ExprWithCleanups", "CXXBindTemporaryExpr", "ConstantExpr", "ConditionalOperator", "CXXStaticCastExpr",
        "CXXReinterpretCastExpr", "CXXConstCastExpr", "SubstNonTypeTemplateParmExpr", "CXXDefaultArgExpr"}
FUNC_KINDS = {"CXXMethodDecl", "FunctionDecl", "CXXConstructorDecl", "CXXDestructorDecl", "CXXConversionDecl"}
REC_KINDS = {"CXXRecordDecl", "ClassTemplateSpecializationDecl", "ClassTemplatePartialSpecializationDecl"}


class ExtractError(Exception):
    pass


def strip_targs(s):
    """remove template argument lists: kissfft<double> -> kissfft"""
    out, d = [], 0
    for ch in s:
        if ch == "<":
            d += 1
        elif ch == ">":
            d -= 1
        elif d == 0:
            out.append(ch)
    return "".join(out)


def qt(n):
    return (n.get("type") or {}).get("qualType", "")


def is_top_const(t):
    """top-level const of a declared type"""
    t = re.sub(r"(\s*\[[^\]]*\])+$", "", t.strip())      # arrays: const-ness of the element type
    if t.endswith("const"):
        return True                    # `T *const`, `T const`
    if "*" in t or "&" in t:
        return False                   # pointer/reference to const is not a const object
    return t.startswith("const ")


def const_target(t):
    """pointer / reference type whose pointee is const, or a by-value type"""
    t = t.strip()
    if not (t.endswith("&") or t.endswith("*") or t.endswith("&&") or "*" in t or "]" in t):
        return True                    # by value: a copy
    core = re.sub(r"[\s&*]+(const)?$", "", t)
    core = re.sub(r"\s*\[[^\]]*\]$", "", core)
    return core.startswith("const ") or core.endswith(" const")


def result_continues(call):
    """the result of an accessor call still designates (part of) the object: an lvalue of non-const type, or a pointer to non-const"""
    vc, t = call.get("valueCategory"), qt(call)
    if vc in ("lvalue", "xvalue"):
        return not (t.startswith("const ") or t.endswith(" const"))
    return ("*" in t) and not const_target(t)


def split_params(ftype):
    """'R (A, B<C, D>, E) const' -> ['A', 'B<C, D>', 'E']"""
    i = ftype.find("(")
    # the parameter list is the last top-level parenthesis group
    depth, start, groups = 0, None, []
    for k, ch in enumerate(ftype):
        if ch == "(":
            if depth == 0:
                start = k
            depth += 1
        elif ch == ")":
            depth -= 1
            if depth == 0:
                groups.append((start, k))
    if not groups:
        return []
    # skip groups like "(*)" of function pointers: choose the last group
    a, b = groups[-1]
    s = ftype[a + 1:b]
    out, d, cur = [], 0, ""
    for ch in s:
        if ch in "<([":
            d += 1
        if ch in ">)]":
            d -= 1
        if ch == "," and d == 0:
            out.append(cur.strip()); cur = ""
        else:
            cur += ch
    if cur.strip():
        out.append(cur.strip())
    return out


def parse_roots(txt):
    dec = json.JSONDecoder()
    i, n, roots = 0, len(txt), []
    while i < n:
        while i < n and txt[i].isspace():
            i += 1
        if i >= n:
            break
        o, i = dec.raw_decode(txt, i)
        roots.append(o)
    return roots


def ptr_kind(t):
    """(kind, pointeeConst) when a declared type is a raw pointer, a reference, or a std smart pointer; else None.
    const_iterator members count as pointers to const, iterator members as pointers to non-const."""
    t0 = t.strip()
    core = re.sub(r"(\s*\[[^\]]*\])+$", "", t0)
    m = re.search(r"\b(shared_ptr|unique_ptr|weak_ptr)\s*<(.*)>", core)
    if m:
        inner = m.group(2).strip()
        return ("smart", inner.startswith("const ") or inner.endswith(" const"))
    if re.search(r"::const_iterator\b", core):
        return ("iterator", True)
    if re.search(r"::iterator\b", core):
        return ("iterator", False)
    if core.endswith("&") or core.endswith("&&"):
        b = core.rstrip("&").strip()
        return ("reference", b.startswith("const ") or b.endswith(" const"))
    if "(*" in core:
        return None                    # function pointer: no data behind it
    c2 = re.sub(r"\s*const$", "", core).strip()
    if c2.endswith("*"):
        b = c2[:-1].strip()
        return ("pointer", b.startswith("const ") or b.endswith(" const"))
    return None


def init_kind(var):
    """how a static local is initialised: 'constexpr', 'literal' (no call / construction in the initialiser: constant
    initialisation), 'dynamic' (runs code on first pass: C++11 guarded initialisation), 'none' (zero-initialised)"""
    if var.get("constexpr"):
        return "constexpr"
    inner = [c for c in var.get("inner", []) if isinstance(c, dict)]
    if not inner:
        return "none"
    dyn = [False]
    def rec(n):
        if isinstance(n, dict):
            k = n.get("kind")
            if k in ("CallExpr", "CXXMemberCallExpr", "CXXOperatorCallExpr", "CXXNewExpr", "LambdaExpr"):
                dyn[0] = True
            if k in ("CXXConstructExpr", "CXXTemporaryObjectExpr"):
                dyn[0] = True
            for c in n.get("inner", []):
                rec(c)
    for c in inner:
        rec(c)
    return "dynamic" if dyn[0] else "literal"


# ---------------------------------------------------------------------------------------------------------------
# per translation unit
# ---------------------------------------------------------------------------------------------------------------
class TU:
    def __init__(self, roots, path):
        self.path = path
        self.decl = {}          # id -> dict(kind, q, type, static, const, cls, prev, ctor)
        self.locs = {}          # id -> location name
        self.locinfo = {}       # name -> dict(kind, isConst, constexpr, file)
        self.funcs = {}         # key -> record (only functions with a body)
        self.constcasts = []
        self.ptrfields = {}     # id -> (q, type, pointeeConst): pointer / reference / smart-pointer data members
        self.ptrwrites = []     # (function, member, how): writes through pointer members inside const member functions
        self.curfile = ""
        for r in roots:
            self.index(r, [], None)
        for r in roots:
            self.bodies(r)

    # -- pass 1: names ------------------------------------------------------------------------------------------
    def index(self, n, ctx, func):
        if not isinstance(n, dict):
            return
        k = n.get("kind")
        loc = n.get("loc") or {}
        f = loc.get("file") or (loc.get("expansionLoc") or {}).get("file") or (loc.get("spellingLoc") or {}).get("file")
        if f:
            self.curfile = f
        name = n.get("name")
        nid = n.get("id")
        if k == "NamespaceDecl":
            for c in n.get("inner", []):
                self.index(c, ctx if name == "GeographicLib" or not name else ctx + [name], func)
            return
        if k in REC_KINDS or k == "ClassTemplateDecl" or k == "EnumDecl":
            if k in REC_KINDS and name:
                q = "::".join(ctx + [name])
                self.decl[nid] = dict(kind="record", q=q)
            newctx = ctx + [name] if (k in REC_KINDS and name) else ctx
            saved = getattr(self, "access", "public")
            if k in REC_KINDS:
                self.access = "private" if n.get("tagUsed") == "class" else "public"
            for c in n.get("inner", []):
                if isinstance(c, dict) and c.get("kind") == "AccessSpecDecl":
                    self.access = c.get("access", self.access)
                    continue
                self.index(c, newctx, func)
            self.access = saved
            return
        if k in FUNC_KINDS:
            pctx = ctx
            pid = n.get("parentDeclContextId")
            if pid and pid in self.decl and self.decl[pid]["kind"] == "record":
                pctx = self.decl[pid]["q"].split("::")
            q = "::".join(pctx + [strip_targs(name or "?")])
            t = qt(n)
            isconst = bool(re.search(r"\)\s*const\b", t))
            cls = "::".join(pctx) if (k != "FunctionDecl" or pid) and pctx else ("::".join(pctx) if k != "FunctionDecl" else "")
            if k == "FunctionDecl" and not pid:
                cls = "::".join(ctx) if ctx else ""
            self.decl[nid] = dict(kind="func", q=q, type=t, static=n.get("storageClass") == "static", const=isconst, cls=cls, prev=n.get("previousDecl"),
                                  ctor=(k == "CXXConstructorDecl"), method=(k != "FunctionDecl"), node=n, file=self.curfile, access=getattr(self, "access", "public"),
                                  inclass=(k != "FunctionDecl"))
            for c in n.get("inner", []):
                self.index(c, ctx, nid)
            return
        if k == "FieldDecl":
            q = "::".join(ctx + [name or "?"])
            self.decl[nid] = dict(kind="field", q=q, type=qt(n), mutable=bool(n.get("mutable")))
            pk = ptr_kind(qt(n))
            if pk:
                self.ptrfields[nid] = (q, qt(n), pk[1], pk[0], os.path.basename(self.curfile))
            if n.get("mutable"):
                self.locs[nid] = q
                self.locinfo[q] = dict(kind="mutableMember", isConst=False, constexpr=False, file=os.path.basename(self.curfile))
            return
        if k == "VarDecl":
            pid = n.get("parentDeclContextId")
            sc = n.get("storageClass")
            t = qt(n)
            if func is not None:
                if sc == "static":
                    fq = self.decl[func]["q"]
                    q = fq + "()::" + (name or "?")
                    self.locs[nid] = q
                    pk = ptr_kind(t)
                    self.locinfo[q] = dict(kind="staticLocal", isConst=is_top_const(t) or bool(n.get("constexpr")), constexpr=bool(n.get("constexpr")), file=os.path.basename(self.curfile), type=t,
                                           init=init_kind(n), mutablePointee=bool(pk and not pk[1]), fn=fq)
            else:
                pctx = ctx
                if pid and pid in self.decl and self.decl[pid]["kind"] == "record":
                    pctx = self.decl[pid]["q"].split("::")
                q = "::".join(pctx + [name or "?"])
                inrec = bool(pctx)
                prev = n.get("previousDecl")
                if prev and prev in self.locs:
                    q = self.locs[prev]
                self.locs[nid] = q
                old = self.locinfo.get(q)
                info = dict(kind="staticMember" if inrec else "global", isConst=is_top_const(t) or bool(n.get("constexpr")), constexpr=bool(n.get("constexpr")), file=os.path.basename(self.curfile), type=t)
                if old:
                    info["isConst"] = info["isConst"] or old["isConst"]; info["constexpr"] = info["constexpr"] or old["constexpr"]
                self.locinfo[q] = info
            for c in n.get("inner", []):
                self.index(c, ctx, func)
            return
        for c in n.get("inner", []):
            self.index(c, ctx, func)

    def canon(self, fid):
        """canonical key of a function: qualified name + type of its first declaration"""
        d = self.decl.get(fid)
        if not d or d["kind"] != "func":
            return None
        seen = 0
        while d.get("prev") and d["prev"] in self.decl and seen < 8:
            d = self.decl[d["prev"]]; seen += 1
        return d["q"] + " :: " + d["type"]

    def first(self, fid):
        d = self.decl.get(fid)
        seen = 0
        while d and d.get("prev") and d["prev"] in self.decl and seen < 8:
            d = self.decl[d["prev"]]; seen += 1
        return d

    # -- pass 2: bodies -----------------------------------------------------------------------------------------
    def bodies(self, root):
        for fid, d in list(self.decl.items()):
            pass
        # iterate over function decls that have a body
        for fid, d in list(self.decl.items()):
            if d["kind"] != "func" or d.get("done"):
                continue
            node = d["node"]
            inner = node.get("inner", [])
            body = [c for c in inner if isinstance(c, dict) and c.get("kind") in ("CompoundStmt", "CXXTryStmt")]
            if not body:
                continue
            d["done"] = True
            fd = self.first(fid)
            key = self.canon(fid)
            rec = dict(key=key, q=fd["q"], type=fd["type"], cls=fd["cls"], static=fd["static"] or d["static"], const=fd["const"] or d["const"], ctor=d["ctor"], access=fd.get("access", "public"),
                       method=fd["method"], reads=set(), writes={}, calls=[], returns=set(), file=os.path.basename(d.get("file") or ""))
            self.cur = rec
            self.retconst = const_target(re.sub(r"\s*\(.*$", "", fd["type"]))
            # constructor initialisers are part of the constructor: walk them too
            for c in inner:
                if isinstance(c, dict) and c.get("kind") in ("CXXCtorInitializer",):
                    self.walk(c, [], [])
            for b in body:
                self.walk(b, [], [])
            if key in self.funcs:
                # same function seen twice in one TU (template pattern + instantiation): merge
                o = self.funcs[key]
                o["reads"] |= rec["reads"]; o["calls"] += rec["calls"]; o["returns"] |= rec["returns"]
                for l, at in rec["writes"].items():
                    o["writes"][l] = at if l not in o["writes"] else (o["writes"][l] & at)
            else:
                self.funcs[key] = rec

    def tracked(self, n):
        k = n.get("kind")
        if k == "MemberExpr":
            return self.locs.get(n.get("referencedMemberDecl"))
        if k == "DeclRefExpr":
            r = n.get("referencedDecl") or {}
            l = self.locs.get(r.get("id"))
            if l and (self.locinfo[l]["constexpr"] or self.locinfo[l]["isConst"]):
                return None            # a const object cannot be written (no const_cast in the library: checked)
            return l
        return None

    def cond_locs(self, cond):
        out = set()
        def rec(n):
            if isinstance(n, dict):
                l = self.tracked(n)
                if l:
                    out.add(l)
                for c in n.get("inner", []):
                    rec(c)
        rec(cond)
        return out

    def flag_of(self, cond):
        """('Class::flag', negated) when cond is `flag` or `!flag`, flag an immutable bool member reached through this"""
        n, neg = cond, False
        while isinstance(n, dict):
            k = n.get("kind")
            if k in ("ParenExpr",) or (k == "ImplicitCastExpr"):
                n = (n.get("inner") or [None])[0]; continue
            if k == "UnaryOperator" and n.get("opcode") == "!":
                neg = not neg; n = (n.get("inner") or [None])[0]; continue
            break
        if isinstance(n, dict) and n.get("kind") == "MemberExpr" and qt(n).replace("const ", "").strip() == "bool":
            d = self.decl.get(n.get("referencedMemberDecl"))
            base = (n.get("inner") or [{}])[0]
            if d and d["kind"] == "field" and not d.get("mutable") and isinstance(base, dict) and base.get("kind") == "CXXThisExpr":
                return d["q"], neg
        return None

    def guard_sig(self, g):
        """serialisable form of a guard: ('if', locations read by the condition, positive, flag) / ('sw', cases, labels)"""
        if g[0] == "sw":
            return g
        _, cond, positive = g
        return ("if", tuple(sorted(self.cond_locs(cond))), positive, self.flag_of(cond))

    def add_write(self, loc, guards):
        at = site_atoms([self.guard_sig(g) for g in guards], loc)
        w = self.cur["writes"]
        w[loc] = at if loc not in w else (w[loc] & at)

    def const_value(self, n):
        while isinstance(n, dict):
            if "value" in n:
                try:
                    return int(n["value"])
                except (TypeError, ValueError):
                    return None
            inner = n.get("inner") or []
            if len(inner) != 1:
                return None
            n = inner[0]
        return None

    def exits(self, stmt):
        """the statement always leaves the enclosing block (throw / return)"""
        if not isinstance(stmt, dict):
            return False
        k = stmt.get("kind")
        if k in ("ReturnStmt", "CXXThrowExpr"):
            return True
        if k == "ExprWithCleanups":
            return any(self.exits(c) for c in stmt.get("inner", []))
        if k == "CompoundStmt":
            inner = stmt.get("inner", [])
            return bool(inner) and self.exits(inner[-1])
        return False

    def walk(self, n, parents, guards):
        if not isinstance(n, dict):
            return
        k = n.get("kind")
        if k in FUNC_KINDS or k in REC_KINDS:
            if k in REC_KINDS:
                return
            # local lambda call operators etc. are walked as part of the enclosing function
        if k == "CXXConstCastExpr":
            self.constcasts.append(self.cur["q"])
        if k == "IfStmt":
            inner = n.get("inner", [])
            idx = 0
            if n.get("hasInit"):
                self.walk(inner[idx], parents + [n], guards); idx += 1
            if n.get("hasVar"):
                self.walk(inner[idx], parents + [n], guards); idx += 1
            cond = inner[idx] if idx < len(inner) else None
            self.walk(cond, parents + [n], guards)
            if idx + 1 < len(inner):
                self.walk(inner[idx + 1], parents + [n], guards + [("if", cond, True)])
            if idx + 2 < len(inner):
                self.walk(inner[idx + 2], parents + [n], guards + [("if", cond, False)])
            return
        if k == "SwitchStmt":
            inner = n.get("inner", [])
            body = inner[-1] if inner else None
            for c in inner[:-1]:
                self.walk(c, parents + [n], guards)
            if isinstance(body, dict) and body.get("kind") == "CompoundStmt":
                cases = []
                def scan(x):
                    if isinstance(x, dict):
                        if x.get("kind") == "CaseStmt":
                            v = self.const_value((x.get("inner") or [None])[0])
                            cases.append(v)
                        if x.get("kind") != "SwitchStmt" or x is n:
                            for y in x.get("inner", []):
                                scan(y)
                for y in body.get("inner", []):
                    scan(y)
                cases_t = tuple(sorted(c for c in cases if c is not None))
                complete = all(c is not None for c in cases)
                labels, terminated = [], True
                for c in body.get("inner", []):
                    while isinstance(c, dict) and c.get("kind") in ("CaseStmt", "DefaultStmt"):
                        if terminated:
                            labels = []
                            terminated = False
                        ci = c.get("inner") or []
                        if c.get("kind") == "CaseStmt":
                            labels.append(str(self.const_value(ci[0] if ci else None)))
                        else:
                            labels.append("default")
                        c = ci[-1] if ci else None
                    g = guards + ([("sw", cases_t, tuple(labels))] if complete and labels else [])
                    self.walk(c, parents + [n, body], g)
                    if isinstance(c, dict) and (c.get("kind") in ("BreakStmt", "ContinueStmt") or self.exits(c)):
                        terminated = True
            else:
                self.walk(body, parents + [n], guards)
            return
        if k == "CompoundStmt":
            g = guards
            for c in n.get("inner", []):
                self.walk(c, parents + [n], g)
                if isinstance(c, dict) and c.get("kind") == "IfStmt" and not c.get("hasElse"):
                    inner = c.get("inner", [])
                    idx = (1 if c.get("hasInit") else 0) + (1 if c.get("hasVar") else 0)
                    if idx + 1 < len(inner) and self.exits(inner[idx + 1]):
                        g = g + [("if", inner[idx], False)]
            return
        loc = self.tracked(n)
        if loc:
            use = self.classify(n, parents)
            if use == "ret":
                self.cur["returns"].add(loc)
            elif use == "w":
                self.cur["reads"].add(loc); self.add_write(loc, guards)
            else:
                self.cur["reads"].add(loc)
        if k in ("CXXConstructExpr", "CXXTemporaryObjectExpr"):
            # a constructor of a library class: it cannot reach `this` of a const object, but it can touch static state
            t = re.sub(r"^const\s+|\s+const$", "", qt(n).strip())
            t = strip_targs(t).replace("GeographicLib::", "")
            ct = (n.get("ctorType") or {}).get("qualType", "")
            if t and ct and re.fullmatch(r"[\w:]+", t):
                self.cur["calls"].append((t + "::" + t.split("::")[-1] + " :: " + ct, [self.guard_sig(g) for g in guards], "ctor"))
        if self.cur.get("const") and not self.cur.get("static") and self.cur.get("method"):
            self.ptr_write_check(n, parents)
        if k in ("CallExpr", "CXXMemberCallExpr", "CXXOperatorCallExpr", "CXXConstructExpr", "CXXTemporaryObjectExpr", "CXXNewExpr"):
            callee = self.callee_id(n)
            if callee and callee in self.decl and self.decl[callee]["kind"] == "func":
                key = self.canon(callee)
                ftype = self.decl[callee]["type"]
                ret = re.sub(r"\s*\(.*$", "", ftype)
                use = None
                if not const_target(ret):
                    use = self.classify(n, parents)
                self.cur["calls"].append((key, [self.guard_sig(g) for g in guards], use))
        for c in n.get("inner", []):
            self.walk(c, parents + [n], guards)

    # -- writes through pointer / reference / smart-pointer members inside const member functions ---------------------
    def strip(self, n):
        while isinstance(n, dict) and n.get("kind") in ("ImplicitCastExpr", "ParenExpr", "CStyleCastExpr", "CXXStaticCastExpr", "CXXReinterpretCastExpr",
                                                         "CXXConstCastExpr", "CXXFunctionalCastExpr", "MaterializeTemporaryExpr", "ExprWithCleanups", "CXXBindTemporaryExpr"):
            n = (n.get("inner") or [None])[0]
        return n

    def ptr_base(self, n, deref):
        """the pointer member of `this` through which the lvalue `n` is reached (after a dereference), or None"""
        for _ in range(40):
            n = self.strip(n)
            if not isinstance(n, dict):
                return None
            k = n.get("kind"); inner = n.get("inner") or []
            if k == "MemberExpr":
                d = self.decl.get(n.get("referencedMemberDecl"))
                base = self.strip(inner[0]) if inner else None
                if d and d["kind"] == "field":
                    if isinstance(base, dict) and base.get("kind") == "CXXThisExpr":
                        pf = self.ptrfields.get(n.get("referencedMemberDecl"))
                        if pf and (deref or pf[3] == "reference"):
                            return pf[0]
                        return None
                    deref = deref or bool(n.get("isArrow")); n = base; continue
                if d and d["kind"] == "func":
                    deref = deref or bool(n.get("isArrow")); n = base; continue
                deref = deref or bool(n.get("isArrow")); n = base; continue
            if k == "ArraySubscriptExpr":
                b = self.strip(inner[0]) if inner else None
                tb = qt(b) if isinstance(b, dict) else ""
                if "*" in tb and "[" not in tb:
                    deref = True
                n = b; continue
            if k == "UnaryOperator":
                if n.get("opcode") == "*":
                    deref = True
                n = inner[0] if inner else None; continue
            if k == "BinaryOperator" and n.get("opcode") in ("+", "-", ","):
                n = inner[0] if n.get("opcode") != "," else inner[-1]; continue
            if k == "CXXOperatorCallExpr":
                nm, _, _ = self.callee_info(n)
                obj = inner[1] if len(inner) > 1 else None
                if nm in ("operator->", "operator*", "operator[]"):
                    ot = qt(self.strip(obj)) if isinstance(self.strip(obj), dict) else ""
                    if re.search(r"shared_ptr|unique_ptr|iterator|\*", ot):
                        deref = True
                n = obj; continue
            if k == "CXXMemberCallExpr":
                cal = self.strip(inner[0]) if inner else None
                if isinstance(cal, dict) and cal.get("kind") == "MemberExpr":
                    if cal.get("name") in ("get", "data", "begin", "end") and ("*" in qt(n) or "iterator" in qt(n)):
                        b = self.strip((cal.get("inner") or [None])[0])
                        tb = qt(b) if isinstance(b, dict) else ""
                        if re.search(r"shared_ptr|unique_ptr", tb):
                            deref = True
                    n = cal; continue
                return None
            return None
        return None

    def ptr_write_check(self, n, parents):
        k = n.get("kind"); inner = n.get("inner") or []
        how = None; target = None
        if (k == "BinaryOperator" and n.get("opcode") == "=") or k == "CompoundAssignOperator":
            how, target = "assign", (inner[0] if inner else None)
        elif k == "UnaryOperator" and n.get("opcode") in ("++", "--"):
            how, target = "increment", (inner[0] if inner else None)
        elif k == "CXXOperatorCallExpr":
            nm, ftype, isconst = self.callee_info(n)
            if nm in ("operator=", "operator+=", "operator-=", "operator*=", "operator/=", "operator++", "operator--") and len(inner) > 1:
                how, target = "assign", inner[1]
        elif k == "CXXMemberCallExpr":
            cal = self.strip(inner[0]) if inner else None
            if isinstance(cal, dict) and cal.get("kind") == "MemberExpr":
                d = self.decl.get(cal.get("referencedMemberDecl"))
                obj = (cal.get("inner") or [None])[0]
                so = self.strip(obj)
                ot = qt(so) if isinstance(so, dict) else ""
                nonconst = False
                if d and d["kind"] == "func":
                    nonconst = not (d["const"] or d["static"])
                elif qt(cal) == "<bound member function type>":
                    nonconst = not (ot.startswith("const ") or ot.endswith(" const")) and cal.get("name") not in ACCESSORS
                if nonconst:
                    f = self.ptr_base(obj, bool(cal.get("isArrow")))
                    if f:
                        self.ptrwrites.append((self.cur["q"], f, "non-const call " + str(cal.get("name"))))
            # pointer members handed to a function that takes a pointer / reference to non-const
        if k in ("CallExpr", "CXXMemberCallExpr"):
            for i, a in enumerate(inner[1:], 1):
                sa = self.strip(a)
                if not isinstance(sa, dict):
                    continue
                ta = qt(a)
                if ("*" in ta or "iterator" in ta) and not const_target(ta):
                    f = self.ptr_base(sa, True)
                    if f and self.arg_use(n, a, inner, 1) == "w":
                        self.ptrwrites.append((self.cur["q"], f, "passed as non-const pointer"))
        if how and target is not None:
            f = self.ptr_base(target, False)
            if f:
                self.ptrwrites.append((self.cur["q"], f, how))

    def callee_id(self, n):
        k = n.get("kind")
        if k in ("CXXConstructExpr", "CXXTemporaryObjectExpr"):
            return None               # resolved by name + signature in ctor_keys (no declaration id in the JSON dump)
        inner = n.get("inner", [])
        if not inner:
            return None
        c = inner[0]
        while isinstance(c, dict) and c.get("kind") in ("ImplicitCastExpr", "ParenExpr"):
            c = (c.get("inner") or [None])[0]
        if not isinstance(c, dict):
            return None
        if c.get("kind") == "MemberExpr":
            return c.get("referencedMemberDecl")
        if c.get("kind") == "DeclRefExpr":
            return (c.get("referencedDecl") or {}).get("id")
        return None

    def callee_info(self, call):
        """(name, type, isconst-method) of the callee of a call node, also for functions outside the namespace"""
        inner = call.get("inner", [])
        if not inner:
            return None, "", False
        c = inner[0]
        while isinstance(c, dict) and c.get("kind") in ("ImplicitCastExpr", "ParenExpr"):
            c = (c.get("inner") or [None])[0]
        if not isinstance(c, dict):
            return None, "", False
        if c.get("kind") == "MemberExpr":
            d = self.decl.get(c.get("referencedMemberDecl"))
            if d and d["kind"] == "func":
                return c.get("name"), d["type"], d["const"]
            return c.get("name"), "", None        # a std:: member function: type unknown here
        if c.get("kind") == "DeclRefExpr":
            r = c.get("referencedDecl") or {}
            t = (r.get("type") or {}).get("qualType", "")
            return r.get("name"), t, bool(re.search(r"\)\s*const\b", t))
        return None, "", False

    def classify(self, node, parents):
        """how the value designated by `node` (a reference to a tracked location, or a call that returns a reference
        to one) is used: 'r' read, 'w' (possible) write, 'ret' returned by reference"""
        cur = node
        for anc in reversed(parents):
            k = anc.get("kind")
            inner = anc.get("inner", [])
            if k in PASS:
                if k == "ConditionalOperator" and inner and inner[0] is cur:
                    return "r"
                cur = anc; continue
            if k == "ImplicitCastExpr" or k == "CStyleCastExpr" or k == "CXXFunctionalCastExpr":
                ck = anc.get("castKind")
                if ck == "LValueToRValue":
                    return "r"
                if ck in ("ArrayToPointerDecay", "NoOp", "DerivedToBase", "UncheckedDerivedToBase", "BitCast", "ConstructorConversion", "UserDefinedConversion"):
                    t = qt(anc)
                    if ("*" in t or "&" in t) and const_target(t):
                        return "r"
                    if ck in ("ConstructorConversion", "UserDefinedConversion"):
                        return "r"
                    cur = anc; continue
                return "r"            # numeric conversions etc. operate on values
            if k == "ArraySubscriptExpr":
                if inner and inner[0] is cur:
                    cur = anc; continue
                return "r"
            if k == "MemberExpr":
                d = self.decl.get(anc.get("referencedMemberDecl"))
                if d and d["kind"] == "func":
                    if d["const"] or d["static"]:
                        return "r"
                    if anc.get("name") in ACCESSORS:
                        cur = anc; continue   # continues at the CXXMemberCallExpr
                    return "w"
                if d and d["kind"] == "field":
                    cur = anc; continue
                # member of a class outside the namespace (std::vector<...>::resize, ifstream::seekg, ...)
                nm = anc.get("name") or ""
                if qt(anc) == "<bound member function type>":
                    # const-ness of std:: member functions is not visible here: accessors are followed, anything else
                    # on a non-const object is taken as a write unless the object expression is const-qualified
                    objt = qt(cur)
                    if objt.startswith("const ") or objt.endswith(" const"):
                        return "r"
                    if nm in ACCESSORS:
                        cur = anc; continue
                    return "w"
                cur = anc; continue
            if k == "CXXMemberCallExpr":
                if inner and inner[0] is cur:
                    # result of an accessor on the location: keep following unless the result is a value / const
                    if not result_continues(anc):
                        return "r"
                    cur = anc; continue
                return self.arg_use(anc, cur, inner, 1)
            if k == "CXXOperatorCallExpr":
                nm, ftype, isconst = self.callee_info(anc)
                if len(inner) > 1 and inner[1] is cur:
                    # object of a member operator, or first argument of a free operator
                    params = split_params(ftype)
                    nargs = len(inner) - 1
                    if len(params) == nargs:          # free operator: first parameter is this argument
                        return "r" if const_target(params[0]) else "w"
                    if isconst:
                        return "r"
                    if nm in ACCESSORS:
                        if not result_continues(anc):
                            return "r"
                        cur = anc; continue
                    return "w"
                # other arguments
                params = split_params(ftype)
                nargs = len(inner) - 1
                pos = next((i for i, c in enumerate(inner) if c is cur), None)
                if pos is None or pos == 0:
                    return "r"
                pi = pos - 1 if len(params) == nargs else pos - 2
                if 0 <= pi < len(params):
                    return "r" if const_target(params[pi]) else "w"
                return "w"
            if k == "CallExpr":
                if inner and inner[0] is cur:
                    return "r"
                return self.arg_use(anc, cur, inner, 1)
            if k in ("CXXConstructExpr", "CXXTemporaryObjectExpr"):
                # copy / conversion into a new object: by value or const reference in every constructor of interest
                return "r"
            if k == "UnaryOperator":
                op = anc.get("opcode")
                if op in ("++", "--"):
                    return "w"
                if op in ("&", "*", "+"):
                    cur = anc; continue
                return "r"
            if k == "BinaryOperator":
                op = anc.get("opcode")
                if op == "=":
                    return "w" if inner and inner[0] is cur else "r"
                if op in ("+", "-") and ("*" in qt(anc)):
                    cur = anc; continue
                if op == ",":
                    if inner and inner[-1] is cur:
                        cur = anc; continue
                    return "r"
                return "r"
            if k == "CompoundAssignOperator":
                return "w" if inner and inner[0] is cur else "r"
            if k == "VarDecl":
                return "r" if const_target(qt(anc)) else "w"
            if k == "ReturnStmt":
                return "r" if self.retconst else "ret"
            if k == "InitListExpr":
                cur = anc; continue
            if k == "CXXCtorInitializer":
                return "r"
            if k == "CXXForRangeStmt" or k == "DeclStmt":
                cur = anc; continue
            # statements: value discarded
            if k.endswith("Stmt") or k in ("CXXThrowExpr",):
                return "r"
            if k == "LambdaExpr":
                return "w"
            return "w"               # unknown context: conservative
        return "r"

    READONLY_ARGS = {"copy": (0, 1), "copy_n": (0,), "equal": (0, 1, 2), "accumulate": (0, 1), "inner_product": (0, 1, 2), "max_element": (0, 1),
                     "min_element": (0, 1), "find": (0, 1), "count": (0, 1), "lower_bound": (0, 1), "upper_bound": (0, 1), "distance": (0, 1)}

    def arg_use(self, call, cur, inner, first_arg):
        nm, ftype, _ = self.callee_info(call)
        pos0 = next((i for i, c in enumerate(inner) if c is cur), None)
        if nm in self.READONLY_ARGS and pos0 is not None and (pos0 - first_arg) in self.READONLY_ARGS[nm] and "GeographicLib" not in ftype:
            return "r"
        params = split_params(ftype)
        pos = next((i for i, c in enumerate(inner) if c is cur), None)
        if pos is None:
            return "w"
        pi = pos - first_arg
        if ftype and 0 <= pi < len(params):
            return "r" if const_target(params[pi]) else "w"
        if ftype and params and params[-1] == "...":
            return "r"
        return "w"                    # unknown callee signature: conservative


# ---------------------------------------------------------------------------------------------------------------
def dump_one(args):
    repo, src, cachedir, hdr_hash = args
    key = hashlib.sha256((VERSION + "\0" + hdr_hash + "\0").encode() + open(src, "rb").read()).hexdigest()[:24]
    cp = os.path.join(cachedir, os.path.basename(src) + "-" + key + ".pkl")
    if os.path.exists(cp):
        try:
            return pickle.load(open(cp, "rb"))
        except Exception:
            pass
    base = [CLANG, "-std=gnu++17", "-fsyntax-only", "-w", "-DGEOGRAPHICLIB_VERIF=1", "-I" + INC, "-I" + os.path.join(repo, "include"), "-I" + os.path.join(repo, "src"),
            "-Xclang", "-ast-dump=json"]
    extra = sorted(set(re.findall(r'#\s*include\s+"(kissfft)\.hh"', open(src, errors="replace").read())))
    if extra:
        # code outside the namespace (kissfft) is needed too: dump the whole unit and keep only the top-level
        # declarations of interest (streamed, the full dump is several hundred MB)
        p = subprocess.Popen(base + [src], stdout=subprocess.PIPE, stderr=subprocess.PIPE, text=True)
        roots, cur, keep = [], None, False
        want = {"GeographicLib"} | set(extra)
        for line in p.stdout:
            if cur is None:
                if line == "    {\n":
                    cur, keep, nhead = ["{"], False, 0
                continue
            if line.startswith("    }") and line.rstrip(",\n") == "    }":
                if keep:
                    cur.append("}")
                    roots.append(json.loads("".join(cur)))
                cur = None
                continue
            if keep:
                cur.append(line)
            else:
                cur.append(line)
                m = re.match(r'      "name": "([^"]*)"', line)
                if m:
                    if m.group(1) in want:
                        keep = True
                    else:
                        cur = ["skip"]      # not wanted: stop accumulating
                elif len(cur) > 400:
                    cur = ["skip"]
        err = p.stderr.read(); p.wait()
        if p.returncode != 0 or not roots:
            return dict(error=f"{os.path.basename(src)}: clang failed: {err[-400:]}")
        tu = TU(roots, src)
    else:
        r = subprocess.run(base + ["-Xclang", "-ast-dump-filter=GeographicLib", src], stdout=subprocess.PIPE, stderr=subprocess.PIPE, text=True)
        if r.returncode != 0 or not r.stdout.strip():
            return dict(error=f"{os.path.basename(src)}: clang failed: {r.stderr[-400:]}")
        tu = TU(parse_roots(r.stdout), src)
    out = dict(src=os.path.basename(src), locinfo=tu.locinfo, constcasts=tu.constcasts, ptrfields=sorted(set(tu.ptrfields.values())), ptrwrites=sorted(set(tu.ptrwrites)),
               funcs={k: dict(key=v["key"], q=v["q"], type=v["type"], cls=v["cls"], static=v["static"], const=v["const"], ctor=v["ctor"], method=v["method"], access=v["access"],
                              reads=sorted(v["reads"]), writes=dict(v["writes"]), calls=v["calls"], returns=sorted(v["returns"]), file=v["file"])
                      for k, v in tu.funcs.items()},
               decls=sorted({(d["q"], d["type"], d["cls"], bool(d["static"]), bool(d["const"]), d["method"]) for d in tu.decl.values() if d["kind"] == "func" and not d.get("prev")}))
    tmp = cp + f".{os.getpid()}.tmp"
    pickle.dump(out, open(tmp, "wb"))
    os.replace(tmp, cp)
    return out


def site_atoms(guards, loc):
    """necessary conditions for a statement under the guard stack to be executed, as far as they are recognised:
    ('flag', F)     the immutable bool member F of the object is false
    ('miss',)       an enclosing `if` condition that reads `loc` itself held (fill-on-miss cache)
    ('swdef', cs)   control came through the `default` label of a switch whose explicit cases are cs"""
    atoms = set()
    for g in guards:
        if g[0] == "if":
            _, clocs, positive, fl = g
            if fl:
                flag, neg = fl
                if (positive and neg) or (not positive and not neg):
                    atoms.add(("flag", flag))
            if positive and loc in clocs:
                atoms.add(("miss",))
        elif g[0] == "sw":
            _, cases, labels = g
            if tuple(labels) == ("default",):
                atoms.add(("swdef", tuple(cases)))
    return frozenset(atoms)


def analyse(repo):
    """-> dict(locations, functions, constcasts)"""
    cachedir = os.path.join(VERIF, "_cache", "effects")
    os.makedirs(cachedir, exist_ok=True)
    os.makedirs(os.path.join(INC, "GeographicLib"), exist_ok=True)
    srcs = sorted(glob.glob(os.path.join(repo, "src", "*.cpp")))
    if not srcs:
        raise ExtractError("no sources under " + repo)
    # one more unit that includes EVERY public header (header-only classes such as NearestNeighbor, SphericalHarmonic2 are
    # reached by no source file) and instantiates the class templates, so that their members and bodies are in the AST
    hdrs = sorted(os.path.basename(p) for p in glob.glob(os.path.join(repo, "include/GeographicLib/*.hpp")))
    allh = "".join(f"#include <GeographicLib/{h}>\n" for h in hdrs)
    allh += ("namespace GeographicLib {\n  struct GvAllHeadersDist { double operator()(const int& a, const int& b) const { return a < b ? b - a : a - b; } };\n"
             "  template class NearestNeighbor<double, int, GvAllHeadersDist>;\n  template class Accumulator<double>;\n"
             "  template class PolygonAreaT<Geodesic>;\n  template class PolygonAreaT<GeodesicExact>;\n  template class PolygonAreaT<Rhumb>;\n}\n")
    allp = os.path.join(cachedir, "gv_allheaders.cpp")
    if not os.path.exists(allp) or open(allp).read() != allh:
        with open(allp + f".{os.getpid()}.tmp", "w") as f:
            f.write(allh)
        os.replace(allp + f".{os.getpid()}.tmp", allp)
    srcs.append(allp)
    h = hashlib.sha256()
    for p in sorted(glob.glob(os.path.join(repo, "include/GeographicLib/*.h*")) + glob.glob(os.path.join(repo, "src/*.h*"))):
        h.update(os.path.basename(p).encode()); h.update(open(p, "rb").read())
    hh = h.hexdigest()
    with cf.ProcessPoolExecutor(max_workers=min(16, os.cpu_count() or 4)) as ex:
        res = list(ex.map(dump_one, [(repo, s, cachedir, hh) for s in srcs]))
    # prune old cache entries
    try:
        import time
        for p in glob.glob(os.path.join(cachedir, "*.pkl")):
            if time.time() - os.path.getmtime(p) > 6 * 3600:
                os.remove(p)
    except OSError:
        pass
    locinfo, funcs, constcasts, decls = {}, {}, [], {}
    ptrfields, ptrwrites = set(), set()
    for r in res:
        if "error" in r:
            raise ExtractError(r["error"])
        ptrfields |= set(map(tuple, r.get("ptrfields", []))); ptrwrites |= set(map(tuple, r.get("ptrwrites", [])))
        for l, i in r["locinfo"].items():
            if l in locinfo:
                i = dict(i); i["isConst"] = i["isConst"] or locinfo[l]["isConst"]; i["constexpr"] = i["constexpr"] or locinfo[l]["constexpr"]
                if locinfo[l]["file"].endswith(".hpp") or locinfo[l]["file"].endswith(".hh"):
                    i["file"] = locinfo[l]["file"]
            locinfo[l] = i
        constcasts += r["constcasts"]
        for d in r["decls"]:
            decls[d[0] + " :: " + d[1]] = d
        for k, f in r["funcs"].items():
            if k not in funcs:
                funcs[k] = dict(f, writes=dict(f["writes"]), reads=set(f["reads"]), returns=set(f["returns"]))
            else:
                o = funcs[k]
                o["reads"] |= set(f["reads"]); o["returns"] |= set(f["returns"])
                if len(f["calls"]) > len(o["calls"]):
                    o["calls"] = f["calls"]
                for l, at in f["writes"].items():
                    o["writes"][l] = at if l not in o["writes"] else (o["writes"][l] & at)
    # fixpoint over the call graph: eff[f] = (reads, writes{loc -> set(kinds)})
    eff = {k: (set(f["reads"]), dict(f["writes"])) for k, f in funcs.items()}

    def meet(wr, l, at):
        if l not in wr:
            wr[l] = at; return True
        n = wr[l] & at
        if n != wr[l]:
            wr[l] = n; return True
        return False

    changed, rounds = True, 0
    while changed and rounds < 60:
        changed = False; rounds += 1
        for k, f in funcs.items():
            rd, wr = eff[k]
            for (callee, guards, use) in f["calls"]:
                cf_ = funcs.get(callee)
                if cf_ is None:
                    continue
                crd, cwr = eff[callee]
                if use == "ctor":
                    # a constructor of another object: its writes to (mutable) members go to the object under construction, which
                    # is not shared yet; what it does to variables of static storage is kept
                    crd = {l for l in crd if locinfo.get(l, {}).get("kind") != "mutableMember"}
                    cwr = {l: at for l, at in cwr.items() if locinfo.get(l, {}).get("kind") != "mutableMember"}
                if not crd <= rd:
                    rd |= crd; changed = True
                for l, at in list(cwr.items()):
                    if meet(wr, l, site_atoms(guards, l) | at):
                        changed = True
                # a callee that hands out a non-const reference to a location: the use of the result decides
                for l in cf_["returns"]:
                    if l not in rd:
                        rd.add(l); changed = True
                    if use == "w":
                        if meet(wr, l, site_atoms(guards, l)):
                            changed = True
                    elif use == "ret" and l not in f["returns"]:
                        f["returns"].add(l); changed = True
    table = []
    for k, f in funcs.items():
        if f["ctor"] or not f["method"]:
            continue
        if not (f["const"] or f["static"]):
            continue
        rd, wr = eff[k]
        ws = []
        for l in sorted(wr):
            ws.append((l, sorted(wr[l])))
        table.append(dict(fn=f["q"] + "(" + ", ".join(split_params(f["type"])) + ")", q=f["q"], cls=strip_targs(f["cls"]).split("::")[0] if f["cls"] else "",
                          static=bool(f["static"]), public=(f.get("access", "public") == "public"), reads=sorted(rd), writes=ws, file=f["file"]))
    table.sort(key=lambda e: e["fn"])
    # functions that are declared const/static but whose body was not found anywhere (pure declarations): listed for the record
    defined = {f["q"] + " :: " + f["type"] for f in funcs.values()}
    undefined = sorted(d[0] for kk, d in decls.items() if kk not in defined and d[5] and (d[3] or d[4]))
    # every function of any kind (constructors, non-const members, free functions included) that writes a variable of static
    # storage duration, directly or through its callees; and the static state each class's constructors touch
    statics = {l for l, i in locinfo.items() if i["kind"] != "mutableMember" and not i["isConst"] and not i["constexpr"]}
    static_writers, ctor_statics = [], {}
    for k, f in funcs.items():
        rd, wr = eff[k]
        ws = sorted(l for l in wr if l in statics); rs = sorted(l for l in rd if l in statics)
        if ws:
            static_writers.append((f["q"], ws))
        if f["ctor"] and (ws or rs):
            c = strip_targs(f["cls"])
            o = ctor_statics.setdefault(c, (set(), set()))
            o[0].update(rs); o[1].update(ws)
    return dict(locations=locinfo, functions=table, constcasts=sorted(set(constcasts)), undefined=undefined, nfuncs=len(funcs),
                ptrfields=sorted(ptrfields), ptrwrites=sorted(ptrwrites), static_writers=sorted(static_writers),
                ctor_statics=sorted((c, sorted(v[0]), sorted(v[1])) for c, v in ctor_statics.items()),
                textscan=text_scan(repo), headers=hdrs, units=[os.path.basename(x) for x in srcs])


def strip_comments(txt):
    """remove comments, string and character literals (kept as empty literals)"""
    out, i, n = [], 0, len(txt)
    while i < n:
        c = txt[i]
        if txt.startswith("//", i):
            j = txt.find("\n", i); j = n if j < 0 else j
            i = j; continue
        if txt.startswith("/*", i):
            j = txt.find("*/", i + 2); j = n - 2 if j < 0 else j
            out.append(" "); i = j + 2; continue
        if c == '"' or c == "'":
            j = i + 1
            while j < n and txt[j] != c:
                j += 2 if txt[j] == "\\" else 1
            out.append(c + c); i = j + 1; continue
        out.append(c); i += 1
    return "".join(out)


def text_scan(repo):
    """independent of clang: the declarators that follow the keyword `mutable`, and the occurrences of `const_cast`, in every
    header and source file of the library (include/GeographicLib/*, src/*), comments and literals removed"""
    muts, casts, nfiles = [], [], 0
    files = sorted(glob.glob(os.path.join(repo, "include/GeographicLib/*.h*")) + glob.glob(os.path.join(repo, "src/*.cpp")) + glob.glob(os.path.join(repo, "src/*.h*")))
    for p in files:
        nfiles += 1
        t = strip_comments(open(p, errors="replace").read())
        b = os.path.basename(p)
        for m in re.finditer(r"\bconst_cast\b", t):
            casts.append(b)
        for m in re.finditer(r"\bmutable\b", t):
            rest = t[m.end():]
            if re.match(r"\s*(\{|->|noexcept)", rest):
                muts.append((b, "<lambda>")); continue
            decl = rest[:rest.find(";")] if ";" in rest else rest
            parts, d, cur = [], 0, ""
            for ch in decl:
                if ch in "<([{":
                    d += 1
                elif ch in ">)]}":
                    d -= 1
                if ch == "," and d == 0:
                    parts.append(cur); cur = ""
                else:
                    cur += ch
            parts.append(cur)
            for q in parts:
                q = re.sub(r"=.*$", "", q, flags=re.S)
                q = re.sub(r"(\s*\[[^\]]*\])+\s*$", "", q.strip())
                q = re.sub(r"\{.*\}\s*$", "", q, flags=re.S).strip()
                mm = re.search(r"([A-Za-z_]\w*)$", q)
                muts.append((b, mm.group(1) if mm else "<unparsed>"))
    return dict(mutable=sorted(muts), const_cast=sorted(casts), nfiles=nfiles)


if __name__ == "__main__":
    repo = sys.argv[1] if len(sys.argv) > 1 else "/repo"
    a = analyse(repo)
    print("locations:")
    for l, i in sorted(a["locations"].items()):
        if not i["constexpr"]:
            print("  ", l, i["kind"], "const" if i["isConst"] else "NON-CONST", i["file"])
    print("const_casts:", a["constcasts"])
    print("functions with tracked effects (of", len(a["functions"]), "const/static member functions;", a["nfuncs"], "bodies):")
    for e in a["functions"]:
        if e["writes"] or (len(sys.argv) > 2 and e["reads"]):
            print("  ", e["fn"][:110], "| cls", e["cls"], "" if e["public"] else "(private)", "| R", e["reads"], "| W", e["writes"])
    print("declared but no body found:", len(a["undefined"]), a["undefined"][:20])
