#!/usr/bin/env python3
"""translate.py <repo> <outdir>: regenerate lean/GeoVerif/Gen/*.lean from the CURRENT sources.

Kept deliberately dumb: the sources are preprocessed with `g++ -E -P` (so the active
#if branch is the one seen) and tables / constants are pulled out with anchored
regular expressions; C++ constant expressions are evaluated with a tiny evaluator.
A missing anchor is an error (exit 1): the check then reports the correspondence
as broken.  A digest of what was extracted is printed (it goes into the evidence)."""
import ast, hashlib, operator, os, re, subprocess, sys
from fractions import Fraction

REPO = sys.argv[1] if len(sys.argv) > 1 else "/repo"
OUT = sys.argv[2] if len(sys.argv) > 2 else "/verif/lean/GeoVerif/Gen"
VERIF = os.path.dirname(os.path.dirname(os.path.abspath(__file__)))
INC = os.path.join(VERIF, "_cache", "inc")


class Missing(Exception):
    pass


_pp_cache = {}


def preprocess(rel, defines=()):
    key = (rel, tuple(defines))
    if key in _pp_cache:
        return _pp_cache[key]
    os.makedirs(os.path.join(INC, "GeographicLib"), exist_ok=True)
    cfg = os.path.join(INC, "GeographicLib", "Config.h")
    if not os.path.exists(cfg):
        open(cfg, "w").write('#define GEOGRAPHICLIB_VERSION_STRING "2.5"\n#define GEOGRAPHICLIB_VERSION_MAJOR 2\n#define GEOGRAPHICLIB_VERSION_MINOR 5\n#define GEOGRAPHICLIB_VERSION_PATCH 0\n#define GEOGRAPHICLIB_DATA "/usr/local/share/GeographicLib"\n#define GEOGRAPHICLIB_HAVE_LONG_DOUBLE 1\n#define GEOGRAPHICLIB_WORDS_BIGENDIAN 0\n#define GEOGRAPHICLIB_PRECISION 2\n#if !defined(GEOGRAPHICLIB_SHARED_LIB)\n#define GEOGRAPHICLIB_SHARED_LIB 0\n#endif\n')
    p = os.path.join(REPO, rel)
    if not os.path.exists(p):
        raise Missing(f"source file {rel} not found")
    # keep only the text that comes from the file itself (linemarkers), so that regexes do not see libstdc++
    r = subprocess.run(["g++", "-std=c++17", "-E", "-I" + INC, "-I" + os.path.join(REPO, "include"), "-I" + os.path.join(REPO, "src")]
                       + ["-D" + d for d in defines] + [p], stdout=subprocess.PIPE, stderr=subprocess.PIPE, text=True)
    if r.returncode != 0:
        raise Missing(f"cannot preprocess {rel}: {r.stderr[-500:]}")
    keep, cur = [], None
    for line in r.stdout.splitlines():
        m = re.match(r'# \d+ "([^"]+)"', line)
        if m:
            cur = m.group(1)
            continue
        if cur and os.path.abspath(cur) == os.path.abspath(p):
            keep.append(line)
    txt = "\n".join(keep)
    _pp_cache[key] = txt
    return txt


# ---- tiny constant-expression evaluator ----------------------------------
_BIN = {ast.Add: operator.add, ast.Sub: operator.sub, ast.Mult: operator.mul, ast.BitOr: operator.or_,
        ast.BitAnd: operator.and_, ast.LShift: operator.lshift, ast.RShift: operator.rshift, ast.Mod: operator.mod,
        ast.BitXor: operator.xor}


def ceval(expr, env, rational=False):
    e = " ".join(expr.split())
    e = re.sub(r"\b(?:real|T|int|unsigned|double)\s*\(", "(", e)      # casts
    e = re.sub(r"\b(0[xX][0-9a-fA-F]+?)[uUlL]+\b", r"\1", e)
    e = re.sub(r"\b(\d+)[uUlL]+\b", r"\1", e)
    e = re.sub(r"\b[A-Za-z_]\w*::", "", e)                               # qualifiers
    e = e.replace("!", " not ") if False else e
    tree = ast.parse(e, mode="eval")

    def ev(n):
        if isinstance(n, ast.Expression):
            return ev(n.body)
        if isinstance(n, ast.Constant) and isinstance(n.value, (int, float)):
            if isinstance(n.value, float):
                return Fraction(str(n.value)) if rational else n.value
            return n.value
        if isinstance(n, ast.Name):
            if n.id in env:
                return env[n.id]
            raise Missing(f"unknown identifier {n.id} in constant expression '{expr}'")
        if isinstance(n, ast.UnaryOp):
            v = ev(n.operand)
            if isinstance(n.op, ast.USub): return -v
            if isinstance(n.op, ast.UAdd): return v
            if isinstance(n.op, ast.Invert): return ~v
        if isinstance(n, ast.BinOp):
            a, b = ev(n.left), ev(n.right)
            if isinstance(n.op, ast.Div):
                if rational:
                    return Fraction(a) / Fraction(b)
                if isinstance(a, int) and isinstance(b, int):
                    q = abs(a) // abs(b)
                    return q if (a >= 0) == (b >= 0) else -q          # C truncation
                return a / b
            if type(n.op) in _BIN:
                return _BIN[type(n.op)](a, b)
        raise Missing(f"unsupported constant expression '{expr}'")
    return ev(tree)


def constexpr_ints(txt, scope_hint=None):
    """all `static [inline] constexpr|const int NAME = expr;` in order, evaluated"""
    env = {}
    for m in re.finditer(r"static\s+(?:inline\s+)?(?:constexpr|const)\s+(?:int|unsigned|long long)\s+(\w+)\s*=\s*([^;]+);", txt):
        try:
            env[m.group(1)] = ceval(m.group(2), env)
        except (Missing, SyntaxError, TypeError):
            pass
    return env


def enum_body(txt, name, env0=None, which=0):
    ms = list(re.finditer(r"enum\s+" + name + r"\s*\{([^}]*)\}", txt))
    if len(ms) <= which:
        raise Missing(f"enum {name} not found")
    m = ms[which]
    env, out, nxt = dict(env0 or {}), [], 0
    for item in m.group(1).split(","):
        item = item.strip()
        if not item:
            continue
        if "=" in item:
            k, e = item.split("=", 1)
            v = ceval(e, env)
        else:
            k, v = item, nxt
        k = k.strip()
        env[k] = v; out.append((k, v)); nxt = v + 1
    return out


def brace_array(txt, anchor_re):
    """content of `{ ... }` following the anchor (balanced braces)"""
    m = re.search(anchor_re, txt)
    if not m:
        raise Missing(f"anchor /{anchor_re}/ not found")
    i = txt.index("{", m.end() - 1) if txt[m.end() - 1] != "{" else m.end() - 1
    depth, j = 0, i
    while j < len(txt):
        if txt[j] == "{": depth += 1
        elif txt[j] == "}":
            depth -= 1
            if depth == 0:
                return txt[i + 1:j]
        j += 1
    raise Missing("unbalanced braces after anchor " + anchor_re)


def split_top(s):
    out, depth, cur = [], 0, ""
    for ch in s:
        if ch in "([{": depth += 1
        if ch in ")]}": depth -= 1
        if ch == "," and depth == 0:
            out.append(cur); cur = ""
        else:
            cur += ch
    if cur.strip():
        out.append(cur)
    return [x.strip() for x in out if x.strip()]


def string_literals(txt, anchor_re):
    body = brace_array(txt, anchor_re)
    return [re.sub(r'"\s*"', "", s)[1:-1] if s.startswith('"') else s for s in split_top(body)]


# ---- emit helpers --------------------------------------------------------
digest = []


def lean_int(v):
    return f"({v})" if v < 0 else str(v)


def lean_str(s):
    return '"' + s.replace("\\", "\\\\").replace('"', '\\"') + '"'


def lean_rat(fr):
    fr = Fraction(fr)
    return f"({fr.numerator}, {fr.denominator})"


def write(name, body):
    os.makedirs(OUT, exist_ok=True)
    p = os.path.join(OUT, name + ".lean")
    txt = "/- GENERATED by tools/translate.py from the current /repo sources; do not edit, not committed. -/\n" + body
    if not os.path.exists(p) or open(p).read() != txt:
        open(p, "w").write(txt)
    digest.append(f"Gen/{name}.lean sha={hashlib.sha256(txt.encode()).hexdigest()[:12]}")


# ---- generators ----------------------------------------------------------
def gen_math():
    txt = preprocess("include/GeographicLib/Math.hpp")
    env = constexpr_ints(txt)
    names = ["qd", "dm", "ms", "hd", "td", "ds"]
    for n in names:
        if n not in env:
            raise Missing(f"Math::{n} not found")
    body = "namespace GeoVerif.Gen.MathC\n" + "".join(f"def {n} : Int := {lean_int(env[n])}\n" for n in names) + "end GeoVerif.Gen.MathC\n"
    write("MathC", body)
    digest.append("Math: " + " ".join(f"{n}={env[n]}" for n in names))


def class_ints(rel, names, extra_env=None):
    txt = preprocess(rel)
    env = dict(extra_env or {})
    for m in re.finditer(r"static\s+(?:inline\s+)?(?:constexpr|const)\s+(?:int|unsigned|long long|unsigned long long)\s+(\w+)\s*=\s*([^;]+);", txt):
        try:
            env[m.group(1)] = ceval(m.group(2), env)
        except (Missing, SyntaxError):
            pass
    out = {}
    for n in names:
        if n not in env:
            raise Missing(f"{rel}: constant {n} not found")
        out[n] = env[n]
    return out


def cstring(rel, name):
    txt = preprocess(rel)
    m = re.search(r"\b" + name + r"\s*=\s*((?:\"[^\"]*\"\s*)+);", txt)
    if not m:
        raise Missing(f"{rel}: string {name} not found")
    return "".join(re.findall(r"\"([^\"]*)\"", m.group(1)))


def math_env():
    return constexpr_ints(preprocess("include/GeographicLib/Math.hpp"))


def gen_gridcodes():
    me = math_env()
    body = "namespace GeoVerif.Gen.Grid\n"
    # Geohash
    gh = class_ints("include/GeographicLib/Geohash.hpp", ["maxlen_", "mask_"], me)
    body += f"def geohashMaxlen : Nat := {gh['maxlen_']}\ndef geohashMask : Nat := {gh['mask_']}\n"
    body += f"def geohashLc : String := {lean_str(cstring('src/Geohash.cpp', 'Geohash::lcdigits_'))}\n"
    body += f"def geohashUc : String := {lean_str(cstring('src/Geohash.cpp', 'Geohash::ucdigits_'))}\n"
    # GARS
    names = ["lonorig_", "latorig_", "baselon_", "baselat_", "lonlen_", "latlen_", "baselen_", "mult1_", "mult2_", "mult3_", "m_", "maxprec_", "maxlen_"]
    ga = class_ints("include/GeographicLib/GARS.hpp", names, me)
    for n in names:
        body += f"def gars_{n.rstrip('_')} : Int := {lean_int(ga[n])}\n"
    body += f"def garsDigits : String := {lean_str(cstring('src/GARS.cpp', 'GARS::digits_'))}\n"
    body += f"def garsLetters : String := {lean_str(cstring('src/GARS.cpp', 'GARS::letters_'))}\n"
    # Georef
    names = ["tile_", "lonorig_", "latorig_", "base_", "baselen_", "maxprec_", "maxlen_"]
    ge = class_ints("include/GeographicLib/Georef.hpp", names, me)
    for n in names:
        body += f"def georef_{n.rstrip('_')} : Int := {lean_int(ge[n])}\n"
    for nm in ["digits_", "lontile_", "lattile_", "degrees_"]:
        body += f"def georef_{nm.rstrip('_')}S : String := {lean_str(cstring('src/Georef.cpp', 'Georef::' + nm))}\n"
    m = re.search(r"const\s+long\s+long\s+m\s*=\s*(\d+)LL", preprocess("src/Georef.cpp"))
    if not m:
        raise Missing("Georef.cpp: scale m not found")
    body += f"def georef_m : Int := {m.group(1)}\n"
    # OSGB
    names = ["base_", "tile_", "tilelevel_", "tilegrid_", "tileoffx_", "tileoffy_", "minx_", "miny_", "maxx_", "maxy_", "maxprec_"]
    og = class_ints("include/GeographicLib/OSGB.hpp", names, me)
    for n in names:
        body += f"def osgb_{n.rstrip('_')} : Int := {lean_int(og[n])}\n"
    body += f"def osgbLetters : String := {lean_str(cstring('src/OSGB.cpp', 'OSGB::letters_'))}\n"
    body += f"def osgbDigits : String := {lean_str(cstring('src/OSGB.cpp', 'OSGB::digits_'))}\n"
    body += "end GeoVerif.Gen.Grid\n"
    write("Grid", body)
    digest.append(f"Grid: geohash maxlen={gh['maxlen_']} gars m={ga['m_']} georef m={m.group(1)} osgb tile={og['tile_']} letters={cstring('src/OSGB.cpp', 'OSGB::letters_')}")


def mgrs_env():
    return class_ints("include/GeographicLib/MGRS.hpp",
                      ["base_", "tilelevel_", "utmrowperiod_", "utmevenrowshift_", "maxprec_", "mult_", "tile_", "minutmcol_", "maxutmcol_",
                       "minutmSrow_", "maxutmSrow_", "minutmNrow_", "maxutmNrow_", "minupsSind_", "maxupsSind_", "minupsNind_", "maxupsNind_",
                       "upseasting_", "utmeasting_", "utmNshift_"], math_env())


def int_table(rel, name, env):
    txt = preprocess(rel)
    body = brace_array(txt, r"\b" + re.escape(name) + r"\s*\[\s*\d*\s*\]\s*=\s*\{")
    return [ceval(e, env) for e in split_top(body)]


def gen_utm():
    me = mgrs_env()
    body = "namespace GeoVerif.Gen.UTM\n"
    for k, v in me.items():
        body += f"def mgrs_{k.rstrip('_')} : Int := {lean_int(v)}\n"
    for t in ["falseeasting_", "falsenorthing_", "mineasting_", "maxeasting_", "minnorthing_", "maxnorthing_"]:
        vals = int_table("src/UTMUPS.cpp", "UTMUPS::" + t, me)
        if len(vals) != 4:
            raise Missing(f"UTMUPS::{t} has {len(vals)} entries")
        body += f"def utm_{t.rstrip('_')} : List Int := [{', '.join(lean_int(v) for v in vals)}]\n"
    # the MGRS copies of the range tables (MGRS.cpp)
    for t in ["mineasting_", "maxeasting_", "minnorthing_", "maxnorthing_"]:
        vals = int_table("src/MGRS.cpp", "MGRS::" + t, me)
        body += f"def mgrs_tbl_{t.rstrip('_')} : List Int := [{', '.join(lean_int(v) for v in vals)}]\n"
    hdr = preprocess("include/GeographicLib/UTMUPS.hpp")
    zs = dict(enum_body(hdr, "zonespec"))
    for k in ["MINPSEUDOZONE", "INVALID", "MATCH", "UTM", "STANDARD", "MAXPSEUDOZONE", "MINZONE", "UPS", "MINUTMZONE", "MAXUTMZONE", "MAXZONE"]:
        if k not in zs:
            raise Missing("zonespec::" + k)
        body += f"def z{k} : Int := {lean_int(zs[k])}\n"
    ep = class_ints("include/GeographicLib/UTMUPS.hpp", ["epsg01N", "epsg60N", "epsgN", "epsg01S", "epsg60S", "epsgS"])
    for k, v in ep.items():
        body += f"def {k} : Int := {v}\n"
    # MGRS letter tables
    mc = preprocess("src/MGRS.cpp")
    def strs(name, n):
        if n == 1:
            return [cstring("src/MGRS.cpp", "MGRS::" + name)]
        b = brace_array(mc, r"MGRS::" + name + r"\s*\[\s*\d*\s*\]\s*=\s*\{")
        return ["".join(re.findall(r'"([^"]*)"', x)) for x in split_top(b)]
    for name, n in [("hemispheres_", 1), ("utmcols_", 3), ("utmrow_", 1), ("upscols_", 4), ("upsrows_", 2), ("latband_", 1), ("upsband_", 1), ("digits_", 1), ("alpha_", 1)]:
        v = strs(name, n)
        if n == 1:
            body += f"def mgrs_{name.rstrip('_')}S : String := {lean_str(v[0])}\n"
        else:
            if len(v) != n:
                raise Missing(f"MGRS::{name} has {len(v)} entries, expected {n}")
            body += f"def mgrs_{name.rstrip('_')}S : List String := [{', '.join(lean_str(x) for x in v)}]\n"
    body += "end GeoVerif.Gen.UTM\n"
    write("UTM", body)
    digest.append("UTM: tile=%d utmNshift=%d zones[%d,%d] epsg01N=%d utmrow=%s" % (me["tile_"], me["utmNshift_"], zs["MINUTMZONE"], zs["MAXUTMZONE"], ep["epsg01N"], strs("utmrow_", 1)[0]))


def gen_geoid():
    txt = preprocess("src/Geoid.cpp")
    body = "namespace GeoVerif.Gen.GeoidC\n"
    info = []
    for nm in ["c0_", "c0n_", "c0s_"]:
        m = re.search(r"const\s+int\s+Geoid::" + nm + r"\s*=\s*(-?\d+)\s*;", txt)
        if not m:
            raise Missing("Geoid::" + nm)
        body += f"def {nm.rstrip('_')} : Int := {m.group(1)}\n"
        info.append(f"{nm}={m.group(1)}")
    for nm in ["c3_", "c3n_", "c3s_"]:
        arr = brace_array(txt, r"Geoid::" + nm + r"\s*\[[^\]]*\]\s*=\s*\{")
        vals = [ceval(x, {}) for x in split_top(arr)]
        if len(vals) != 120:
            raise Missing(f"Geoid::{nm} has {len(vals)} entries, expected 120")
        body += f"def {nm.rstrip('_')} : List Int := [{', '.join(lean_int(v) for v in vals)}]\n"
    hdr = preprocess("include/GeographicLib/Geoid.hpp")
    ci = class_ints("include/GeographicLib/Geoid.hpp", ["stencilsize_", "nterms_"])
    body += f"def stencilsize : Nat := {ci['stencilsize_']}\ndef nterms : Nat := {ci['nterms_']}\n"
    m = re.search(r"pixel_max_\s*=\s*(0x[0-9a-fA-F]+)u", hdr)
    if not m:
        raise Missing("Geoid::pixel_max_")
    body += f"def pixelMax : Nat := {int(m.group(1), 16)}\n"
    body += "end GeoVerif.Gen.GeoidC\n"
    write("GeoidC", body)
    digest.append("Geoid: " + " ".join(info) + f" pixel_max={int(m.group(1),16)}")


def gen_mask():
    body = "namespace GeoVerif.Gen.Mask\n"
    info = []
    for cls, rel in [("geod", "include/GeographicLib/Geodesic.hpp"), ("geodx", "include/GeographicLib/GeodesicExact.hpp")]:
        txt = preprocess(rel)
        cap = constexpr_ints(txt)
        msk = dict(enum_body(txt, "mask", cap))
        for k in ["CAP_ALL", "CAP_MASK", "OUT_ALL", "OUT_MASK"]:
            if k not in cap:
                raise Missing(f"{rel}: {k}")
            body += f"def {cls}_{k} : Nat := {cap[k]}\n"
        for k in ["NONE", "LATITUDE", "LONGITUDE", "AZIMUTH", "DISTANCE", "STANDARD", "DISTANCE_IN", "REDUCEDLENGTH", "GEODESICSCALE", "AREA", "LONG_UNROLL", "ALL"]:
            if k not in msk:
                raise Missing(f"{rel}: mask {k}")
            body += f"def {cls}_{k} : Nat := {msk[k]}\n"
        info.append(f"{cls}: OUT_MASK={cap['OUT_MASK']} DISTANCE_IN={msk['DISTANCE_IN']} ALL={msk['ALL']}")
    txt = preprocess("include/GeographicLib/Rhumb.hpp")
    msk = dict(enum_body(txt, "mask"))
    for k in ["NONE", "LATITUDE", "LONGITUDE", "AZIMUTH", "DISTANCE", "AREA", "LONG_UNROLL", "ALL"]:
        if k not in msk:
            raise Missing("Rhumb.hpp: mask " + k)
        body += f"def rhumb_{k} : Nat := {msk[k]}\n"
    body += "end GeoVerif.Gen.Mask\n"
    write("Mask", body)
    digest.append("Mask: " + "; ".join(info) + f"; rhumb ALL={msk['ALL']}")


def func_array(txt, func_re, arr="coeff"):
    """first `arr[] = {...}` inside the function whose header matches func_re"""
    m = re.search(func_re, txt)
    if not m:
        raise Missing(f"function /{func_re}/ not found")
    sub = txt[m.end():]
    body = brace_array(sub, r"\b" + arr + r"\s*\[\s*\]\s*=\s*\{")
    return [ceval(x, {}, rational=True) for x in split_top(body)]


def lean_ratlist(vals):
    out = []
    for v in vals:
        fr = Fraction(v)
        out.append(f"({fr.numerator} : Rat)" if fr.denominator == 1 else f"(({fr.numerator} : Rat) / {fr.denominator})")
    return "[" + ", ".join(out) + "]"


def gen_geodseries():
    txt = preprocess("src/Geodesic.cpp")
    body = "namespace GeoVerif.Gen.GeodSeries\n"
    sizes = {}
    for name, fre in [("A1m1f", r"Geodesic::A1m1f\s*\("), ("C1f", r"void\s+Geodesic::C1f\s*\("), ("C1pf", r"void\s+Geodesic::C1pf\s*\("),
                      ("A2m1f", r"Geodesic::A2m1f\s*\("), ("C2f", r"void\s+Geodesic::C2f\s*\("), ("A3coeff", r"void\s+Geodesic::A3coeff\s*\("),
                      ("C3coeff", r"void\s+Geodesic::C3coeff\s*\("), ("C4coeff", r"void\s+Geodesic::C4coeff\s*\(")]:
        vals = func_array(txt, fre)
        sizes[name] = len(vals)
        body += f"def {name} : List Rat := {lean_ratlist(vals)}\n"
    # the order N of the active #if branch is determined by the table size (N^2 + 7N - 2 floor(N/2))/4
    order = [N for N in range(1, 12) if (N * N + 7 * N - 2 * (N // 2)) // 4 == sizes["C1f"]]
    if len(order) != 1:
        raise Missing("cannot determine GEOGRAPHICLIB_GEODESIC_ORDER from the size of the C1f table")
    order = order[0]
    body += f"def order : Nat := {order}\n"
    body += "end GeoVerif.Gen.GeodSeries\n"
    write("GeodSeries", body)
    digest.append(f"GeodSeries: order={order} sizes={sizes}")


GENERATORS = [gen_math, gen_gridcodes, gen_utm, gen_geoid, gen_mask, gen_geodseries]


def load_plugins():
    """tools/translate.d/*.py: each defines functions `gen_<name>(T)` (T = this module, giving access to
    preprocess / brace_array / func_array / ceval / write / digest / Missing ...).  One file per property so
    that properties can be developed independently."""
    import glob, importlib.util, types
    me = sys.modules[__name__]
    out = []
    for f in sorted(glob.glob(os.path.join(os.path.dirname(os.path.abspath(__file__)), "translate.d", "*.py"))):
        spec = importlib.util.spec_from_file_location("translate_d_" + os.path.basename(f)[:-3], f)
        mod = importlib.util.module_from_spec(spec)
        spec.loader.exec_module(mod)
        for n in sorted(dir(mod)):
            fn = getattr(mod, n)
            if n.startswith("gen_") and isinstance(fn, types.FunctionType):
                w = (lambda fn=fn: fn(me))
                w.__name__ = n
                out.append(w)
    return out


def gen_corr_all():
    """lean/GeoVerif/Corr/All.lean: the list of correspondence handlers = every Corr/C*.lean present"""
    cdir = os.path.join(os.path.dirname(OUT), "Corr")
    mods = sorted(f[:-5] for f in os.listdir(cdir) if re.fullmatch(r"C\d+\.lean", f))
    body = "".join(f"import GeoVerif.Corr.{m}\n" for m in mods)
    body += "/- GENERATED by tools/translate.py (one handler per Corr/Cxx.lean); not committed. -/\nnamespace GeoVerif.Corr\nopen GeoVerif.Proto\n"
    body += "def allHandlers : List (String → List String → List String → Option Verdict) :=\n  [" + ", ".join(f"{m}.handle" for m in mods) + "]\nend GeoVerif.Corr\n"
    p = os.path.join(cdir, "All.lean")
    if not os.path.exists(p) or open(p).read() != body:
        open(p, "w").write(body)
    # op names must be unique across handlers (the driver dispatches on the first handler that knows the op)
    seen = {}
    for m in mods:
        txt = open(os.path.join(cdir, m + ".lean")).read()
        for line in re.findall(r'^\s*\| ("[A-Za-z0-9_]+"(?:\s*\|\s*"[A-Za-z0-9_]+")*)\s*=>', txt, flags=re.M):
            for op in re.findall(r'"([A-Za-z0-9_]+)"', line):
                if op in seen and seen[op] != m:
                    raise Missing(f"correspondence op '{op}' is handled by both Corr/{seen[op]}.lean and Corr/{m}.lean")
                seen[op] = m


def main():
    failed = []
    try:
        gen_corr_all()
    except Missing as e:
        failed.append(f"gen_corr_all: {e}")
    for g in GENERATORS + load_plugins():
        try:
            g()
        except Missing as e:
            failed.append(f"{g.__name__}: {e}")
        except Exception as e:  # any parsing accident is a missing anchor too
            failed.append(f"{g.__name__}: {type(e).__name__}: {e}")
    for d in digest:
        print(d)
    if failed:
        for f in failed:
            print("TRANSLATE-ERROR", f)
        return 1
    return 0


if __name__ == "__main__":
    sys.exit(main())
