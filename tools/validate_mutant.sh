#!/bin/bash
# validate_mutant.sh <worktree> <mutant dir (patch.diff, demo.cpp, notes.txt)> <seeded id>
# Confirms in the scratch worktree: compiles, 194/194 tests pass with the change, demo FAILs with it and PASSes without.
# On success copies the mutant to /verif/seeded/<id>/ with meta.json.  Leaves the worktree pristine, removes its build.
wt=$1; md=$2; id=$3
log=/tmp/mut/validate_$id.log
exec > $log 2>&1
set -x
cd $wt || exit 2
git checkout -- src include tools 2>/dev/null
build() {
  cmake -G Ninja -B _build -DCMAKE_BUILD_TYPE=Release > /dev/null && cmake --build _build -j4 2>&1 | tail -1 && cmake --build _build --target testprograms -j4 2>&1 | tail -1
}
demo() {
  lib=$(ls _build/src/libGeographicLib.so* 2>/dev/null | head -1)
  g++ -std=c++17 -O1 -I$wt/include -I$wt/_build/include $md/demo.cpp -L$wt/_build/src -lGeographicLib -Wl,-rpath,$wt/_build/src -lpthread -o _build/demo_$id || return 99
  timeout 600 _build/demo_$id > _build/demo_$id.out 2>&1; rc=$?; tail -3 _build/demo_$id.out; return $rc
}
git apply $md/patch.diff || { echo "RESULT patch-does-not-apply"; exit 1; }
build || { echo "RESULT does-not-compile"; git checkout -- src include; exit 1; }
t=$(ctest --test-dir _build -j4 --timeout 900 2>&1 | grep "tests passed")
echo "$t"
demo; rc_mut=$?
git checkout -- src include
build
demo; rc_clean=$?
tests_ok=0; case "$t" in "100% tests passed, 0 tests failed out of 194") tests_ok=1;; esac
echo "RESULT tests_ok=$tests_ok demo_mutant_rc=$rc_mut demo_clean_rc=$rc_clean"
rm -rf _build
if [ $tests_ok = 1 ] && [ $rc_mut != 0 ] && [ $rc_mut != 99 ] && [ $rc_clean = 0 ]; then
  mkdir -p /verif/seeded/$id && cp $md/patch.diff $md/demo.cpp /verif/seeded/$id/ && cp $md/notes.txt /verif/seeded/$id/notes.txt
  echo "VALID"
else
  echo "INVALID"
fi
