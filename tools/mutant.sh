#!/bin/bash
# usage: tools/mutant.sh revert <commit> | apply <patch>  -- <check args...>
# applies a change to /repo's working tree, runs ./check, restores the tree.
set -u
mode=$1; what=$2; shift 2; [ "$1" = "--" ] && shift
cd /repo
if [ "$mode" = revert ]; then git show $what | git apply -R || exit 9; else git apply "$what" || exit 9; fi
cd /verif; ./check "$@"; rc=$?
git -C /repo checkout -- . 
echo "mutant exit=$rc"
exit $rc
