#!/usr/bin/env python3
"""merge_findings2.py <branch>: known_findings.json := the branch's file (keeps its edits of existing entries) + entries of HEAD whose id the branch lacks; sorted by id"""
import json, subprocess, sys, re
b = sys.argv[1]
ours = json.loads(subprocess.run(['git', 'show', 'HEAD:known_findings.json'], capture_output=True, text=True).stdout)
theirs = json.loads(subprocess.run(['git', 'show', b + ':known_findings.json'], capture_output=True, text=True).stdout)
ids = {f['id'] for f in theirs['findings']}
for f in ours['findings']:
    if f['id'] not in ids:
        theirs['findings'].append(f); print("kept from main", f['id'])
def key(f):
    m = re.match(r'F(\d+)(.*)', f['id']); return (int(m.group(1)) if m else 999, m.group(2) if m else f['id'])
theirs['findings'].sort(key=key)
json.dump(theirs, open('known_findings.json', 'w'), indent=1, ensure_ascii=False)
