#!/usr/bin/env python3
"""Regenerate MANIFEST.json from tools/props.py (keeps the manifest valid and in sync)."""
import json, os, sys
sys.path.insert(0, os.path.dirname(os.path.abspath(__file__)))
from props import PROPS
V = os.path.dirname(os.path.dirname(os.path.abspath(__file__)))
ids = [json.loads(l)["id"] for l in open(os.path.join(V, "properties.jsonl"))]
checks, na = [], []
for pid in ids:
    c = PROPS.get(pid)
    if not c or not c.get("claimed", True):
        na.append({"property_id": pid, "reason": (c or {}).get("na_reason", "check not built yet in this round (planned in DESIGN.md §5); not claimed until its theorems and correspondence run green")})
        continue
    checks.append({
        "property_id": pid,
        "quick_cmd": f"./check {pid} quick",
        "thorough_cmd": f"./check {pid} thorough",
        "evidence_file": f"/verif/evidence/{pid}.json",
        "replay_cmd_template": f"./check {pid} --replay {{path}}",
        "engine": "lean4-geoverif",
        "level_claimed": {"category": "proof", "text": c["level_text"], "design_ref": c.get("design_ref", "DESIGN.md §5 " + pid)},
        "level_note": c["level_note"],
        "technique": c.get("technique", "Lean 4 theorems about a model of the code + correspondence check of the model against the implementation"),
    })
m = {
    "version": 1,
    "setup_cmd": "./check --setup",
    "hooks": {"guard": "GEOGRAPHICLIB_VERIF", "enable": "checks compile /repo/src/*.cpp from the working tree with -DGEOGRAPHICLIB_VERIF=1 (no source hooks exist: harnesses reach private kernels with -fno-access-control)",
              "baseline_off_cmd": "cmake --build /repo/_build && ctest --test-dir /repo/_build -j8 --timeout 900", "source_commits": [], "add_only": True},
    "engines": [{"name": "lean4-geoverif", "path": "/verif/lean", "serves_properties": [c["property_id"] for c in checks],
                 "kind_free_text": "Lean 4 library GeoVerif (models, theorems, generated tables) + native driver gvdriver computing the correspondence verdicts; C++ harnesses under /verif/harness"}],
    "checks": checks,
    "not_applicable": na,
    "notes": "See DESIGN.md. Genuine defects found and repaired are listed in known_findings.json (fix: commits in /repo).",
}
json.dump(m, open(os.path.join(V, "MANIFEST.json"), "w"), indent=1)
print("claimed", len(checks), "not claimed", len(na))
