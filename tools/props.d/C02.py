# C02: pieces of the series inverse solver are modelled in Lean (Model/GeodInvSeries.lean)
import hashlib as _hl, os as _os
_verif = _os.path.dirname(_os.path.dirname(_os.path.dirname(_os.path.abspath(__file__))))
_repo = _os.environ.get("GV_REPO", "/repo")


def _tool_digest():
    # harness/C02.cpp compiles $GV_REPO/tools/GeodSolve.cpp into itself (observe_at: tools/GeodSolve -i): the harness cache key must
    # depend on its text (the generic key covers only the library and the harness sources)
    try:
        return _hl.sha256(open(_os.path.join(_repo, "tools", "GeodSolve.cpp"), "rb").read()).hexdigest()[:16]
    except OSError:
        return "0"


_P = PROPS["C02"]
_P["harnesses"] = [dict(name="C02", procs_quick=4, procs_thorough=16,
                        extra=["-I" + _os.path.join(_verif, "harness", "C10_tools"), "-DGV_TOOLS_DIGEST=0x" + _tool_digest()])]
_P["gens"] = ["gen_math", "gen_geodseries"]
_P["rule"] += ("; for every pair with f < 1 the private Geodesic::InverseStart, Geodesic::Lambda12 (on the pair's reduced latitudes, a trial azimuth incl. 0, 90, 180 ± 1e-10, "
               "and the longitude difference) and Geodesic::Astroid (axis, tiny y, next to the evolute, far field) are compared with Model/GeodInvSeries.lean, "
               "strata model-invstart[-large-f], model-lambda12[-large-f], model-astroid-k")
_P["tolerances"]["model correspondence (astroid, invstart, lambda12)"] = (
    "4 × the first-order running error bound of the model's own binary64 evaluation on the same inputs (FP/RunErr.lean), as in C01")
_P["level_text"] += (
    " Geodesic::Astroid, Geodesic::InverseStart (short-line, spherical and astroid starting guesses) and Geodesic::Lambda12 (with its derivative through Geodesic::Lengths) are modelled in Lean (Model/GeodInvSeries.lean, same arithmetic in the same "
    "order) and executed in binary64 against the private functions. Theorem astroid_root: over ℝ, for x, y ≠ 0 and a non-negative discriminant (Cardano branch, on or "
    "outside the astroid) Astroid returns the positive root k of k⁴ + 2k³ − (x² + y² − 1)k² − 2y²k − y² = 0 (Ferrari/Cardano algebra shared with the geocentric "
    "conversion); the trigonometric branch of Astroid is correspondence only."
    " Deepening round: the whole of GenInverse behind the canonicalisation is a Lean model (Model/GeodInvFull.lean, polymorphic in the number type, same operations in the same order): reduced latitudes with the "
    "ordering guard of fix 48445e6, the meridional candidate with its acceptance sig12 < 1 || m12x >= 0 and short-line guard (factor 1 / 8 after fix e05e74d), the equatorial branch, its cut-off lon12s >= f·180 and the clamp a12 ≤ 180 of fix 62054f0, "
    "the short-line exit, the Newton/bisection loop (bracket, tripn, tripb, maxit1_, maxit2_ = maxit1_ + 2·digits + 20 of fix fe4d9c6, stop rule of fixes d06599a / 61b2dd2, exit at alp1 = 90° of fix 8088996; total by a fuel parameter), the final Lengths, the three ways alp12 is computed, S12, the "
    "swapp/lonsign/latsign restoration and atan2d. The numeric kernels (Lengths, InverseStart, Lambda12, area integral) are a record; theorems quantify over every such record. "
    "THEOREMS, every number type incl. binary64: loop_budget (at most maxit2_+1 kernel evaluations, numit ≤ maxit2_, the model's fuel is never exhausted), loop_budget_binary64 (maxit2_ = maxit1_ + 2·53 + 20 = 146 since fix fe4d9c6), loop_fuel_enough, loop_exits (tripb, |v| below tolerance, budget, or equatorial end points at alp1 = 90° with v > 0 — fix 8088996); bracket_update (one pass moves at most one end, to the "
    "current point, the upper one only if v > 0, the lower one only if v < 0), pass_moves_bracket_by_update, bracket_ends_observed (on exit each end is the initial one or a point where Lambda12 was evaluated with the sign that puts "
    "the root on the other side), after_maxit1_bisection (from maxit1_ on every pass is a bisection), after_maxit1_replace, newton_step_guard. THEOREMS over ℝ, every kernel: iterates_in_open_interval (unit vectors with sin α₁ > 0), "
    "bracket_contains_root (for a kernel that is positive only above and negative only below a root the root stays strictly inside the bracket), bracket_ends_monotone, bisection_inside_bracket (cotangent of the new point is the mediant), "
    "bisection_halves_angle (the normalised chord midpoint of directions A, B is the direction (A+B)/2), a12_range (0 ≤ a12 ≤ 180 on every branch for kernels with arcs in [0, π], for f < 1 and lon12 ≥ 0 only — unconditional since the clamp of fix 62054f0), equatorial_a12_le_180 (every number type whose < is irreflexive at 180, binary64 included: the equatorial a12 never compares > 180 and a NaN passes through), equatorial_a12_exact and a12_range_series (no hypothesis on kernels: the Lean "
    "Lambda12 and InverseStart satisfy the contract), reduced_latitudes_ordered and lambda12_radicand_nonneg with lambda12_calp2 (after the ordering guard of fix 48445e6 the radicand of calp2 in Lambda12 is non-negative for every trial azimuth: "
    "no sqrt of a negative number, what F55 was), s12_nonneg_short, s12_nonneg_equatorial, series_dnm_nonneg, equatorial_closed_form (s12 = a λ12, m12 = b sin(λ12/f1), M12 = M21 = cos(λ12/f1), a12 = min(lon12/f1, 180), S12 = 0, azimuths ±90) "
    "with series_area_equatorial, meridional_closed_form, meridional_azimuth_far and meridional_azimuths (azimuths exactly 0 or 180), full_exchange / full_equator / full_meridian (the symmetry laws for the whole function, every kernel) and "
    "flags_do_not_reach_the_solver; series_f64_exchange / _equator / _meridian instantiate the binary64 laws with the full series model as core. "
    "CORRESPONDENCE: op geninv_series runs the full Lean series solver in binary64 on the inputs of Geodesic::GenInverse (only the values of Math::sincosd / sincosde are handed over; the head of GenInverse is recomputed by the exact "
    "binary64 model and must agree exactly); op geninv_kern runs the same bookkeeping model for Geodesic and GeodesicExact with kernel values taken from the implementation's own private Lambda12 / Lengths / InverseStart at the iterates of "
    "its Newton loop (made visible through maxit2_ = 0, 1, 2, …) — on the unchanged tree model and implementation follow the same trajectory in every case sampled. "
    "NOT PROVED: convergence of the Newton iteration, that Lambda12 has the sign structure assumed by bracket_contains_root, global minimality; s12 ≥ 0 on the meridional and Newton branches; the F64 laws of the head (AngDiff antisymmetry) are C16's. "
    "Findings of this round: F68 a12 > 180 by ulps at the equatorial cut-off (repaired 62054f0; the clamp is in the model: equatorial_a12_le_180 holds for binary64), F69 zero-length answer 1–64 ulp beyond the cut-off on strongly oblate "
    "ellipsoids (repaired 8088996; the new exit is in stopNow: loop_exits), F70 bisection budget too small (repaired fe4d9c6; loop_budget_binary64: at most 147 evaluations), the unassigned s12x of GeodesicExact's meridional guard "
    "(= F67, repaired dc6d194). OPEN: F71 non-shortest answer (second root of lambda12, m12 < 0, thousands of km longer) on strongly prolate ellipsoids (f ≤ −0.3) for points within round-off of opposite meridians; class decided in the "
    "harness (f ≤ −0.25, |180 − |lon12|| ≤ 1e-5°, returned m12 < −1 m), everything else alarms. One false alarm of the new strata removed: the position tolerance is scaled with the quarter meridian (the normalisation of the library's "
    "accuracy tables) instead of a on prolate ellipsoids.")
_P["rule"] += ("; deepening round strata next to every branch boundary of GenInverse: inverse-14 equatorial cut-off lon12 = 180(1−f) ± 4 ulp incl. denormal latitudes, inverse-15 tiny latitudes 1e-18…1e-5° around the equatorial conjugate "
               "distance (loop crosses maxit1_, ends by tripb / maxit2_), inverse-16 meridional candidate on the boundary of its acceptance (found by bisection on the returned azimuth) and arcs of one radian over the pole, inverse-17 arc length "
               "etol2·(1 ± 10^-k) (short-line exit), inverse-18 lon12 = 180 ± 3 ulp with inexact longitude differences, inverse-19 both points at / next to the same or opposite poles, inverse-20 denormal latitudes and longitude differences, "
               "inverse-21 nearly antipodal on f = ±0.1 … 0.75, −1, −3; histogram branch-{meridional, equatorial, short-line, newton-le3, -le19, -past-maxit1, -maxit2}[-meridian-rejected] of what the implementation did; every third pair through all "
               "Inverse overloads, GenInverse, InverseLine of Geodesic, GeodesicExact, Geodesic(a,f,true) (op ginv_entry); every fifth pair (snapped to 2^-20°) through tools/GeodSolve -i with -E -f -b -a -u combinations (op geodsolve_inv)")
_P["tolerances"].update({
    "geninv_series / geninv_kern: head of GenInverse (canonical latitudes, lon12, AngDiff error term, flags)": "exact (Lean, binary64 model of C16), up to the sign of a zero",
    "geninv_series / geninv_kern: reduced latitudes, outputs on branches without iteration, outputs after the same number of Newton steps": "4 × first-order running error bound of the model's own evaluation (FP/RunErr.lean)",
    "geninv_series / geninv_kern: different branch / iteration count / trajectory": "drift indicator (counted as skipped), alarm only if s12, a12 or the azimuths (conditioned by m12) differ by more than 2 × 4 × documented accuracy",
    "entry points (Inverse overloads, GenInverse, InverseLine azimuth and arc)": "bit for bit; InverseLine distance and closure: 1 × / 3 × tol",
    "GeodSolve -i": "half a unit of the last printed digit (-p 10) + 4 ulp",
})
_P["technique"] = ("Lean 4: kernel-parametric model of the whole GenInverse with theorems for every kernel (loop invariants, ranges, closed forms, symmetries) + execution of the model in binary64 against the implementation "
                   "(full series solver; bookkeeping on the implementation's own kernel values for both solvers) + exact wrapper correspondence + oracle closure")
