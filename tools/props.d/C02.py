# C02: pieces of the series inverse solver are modelled in Lean (Model/GeodInvSeries.lean)
import hashlib as _hl, os as _os
_verif = _os.path.dirname(_os.path.dirname(_os.path.dirname(_os.path.abspath(__file__))))
_repo = _os.environ.get("GV_REPO", "/repo")


def _tool_digest():
    # harness/C02.cpp compiles $GV_REPO/tools/GeodSolve.cpp into itself (observe_at: tools/GeodSolve -i): the harness cache key must
    # depend on its text (the generic key covers only the library and the harness sources)
    try:
        return _hl.sha256(open(_os.path.join(_repo, "tools", "GeodSolve.cpp"), "rb").read()).hexdigest()[:16]
    except OSError:
        return "0"


_P = PROPS["C02"]
_P["harnesses"] = [dict(name="C02", procs_quick=4, procs_thorough=16,
                        extra=["-I" + _os.path.join(_verif, "harness", "C10_tools"), "-DGV_TOOLS_DIGEST=0x" + _tool_digest()])]
_P["gens"] = ["gen_math", "gen_geodseries"]
_P["rule"] += ("; for every pair with f < 1 the private Geodesic::InverseStart, Geodesic::Lambda12 (on the pair's reduced latitudes, a trial azimuth incl. 0, 90, 180 ± 1e-10, "
               "and the longitude difference) and Geodesic::Astroid (axis, tiny y, next to the evolute, far field) are compared with Model/GeodInvSeries.lean, "
               "strata model-invstart[-large-f], model-lambda12[-large-f], model-astroid-k")
_P["tolerances"]["model correspondence (astroid, invstart, lambda12)"] = (
    "4 × the first-order running error bound of the model's own binary64 evaluation on the same inputs (FP/RunErr.lean), as in C01")
_P["level_text"] += (
    " Geodesic::Astroid, Geodesic::InverseStart (short-line, spherical and astroid starting guesses) and Geodesic::Lambda12 (with its derivative through Geodesic::Lengths) are modelled in Lean (Model/GeodInvSeries.lean, same arithmetic in the same "
    "order) and executed in binary64 against the private functions. Theorem astroid_root: over ℝ, for x, y ≠ 0 and a non-negative discriminant (Cardano branch, on or "
    "outside the astroid) Astroid returns the positive root k of k⁴ + 2k³ − (x² + y² − 1)k² − 2y²k − y² = 0 (Ferrari/Cardano algebra shared with the geocentric "
    "conversion). Not modelled: the Newton/bisection loop and the meridian/equator branches of GenInverse (oracle closure only); the trigonometric branch of Astroid is correspondence only.")
