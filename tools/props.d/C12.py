# C12 (deepening round): overrides of the shared entry in tools/props.py
PROPS["C12"]["gens"] = ["gen_mask", "gen_overloads", "gen_lengthmask"]
