# C12 (deepening round): overrides of the shared entry in tools/props.py
PROPS["C12"]["gens"] = ["gen_mask", "gen_overloads", "gen_lengthmask"]

PROPS["C12"]["rule"] = (
    "written sets: every one of the 512 mask combinations (9 flag constants incl. DISTANCE_IN and LONG_UNROLL) × capability sets (40 quick / all 512 "
    "thorough; some on an ellipsoid with |f| > 0.01) × arcmode × {series, exact=true, GeodesicExact} for GeodesicLine(Exact)::GenPosition; all 512 masks "
    "for GenDirect / GenInverse of the five solvers (series, exact class, Geodesic(a,f,true), Rhumb series, Rhumb exact) and for RhumbLine::GenPosition on "
    "both sides of the pole; default-constructed lines (object built over memory painted 0x00 / 0x01 / 0x07) × masks × arcmode; Capabilities() / "
    "Capabilities(testcaps) for all 512 capability sets; outputs pre-filled with distinct sentinels. "
    "values: random lines incl. polar / meridional / multi-circuit / tiny lengths on WGS84 and on f = 0.02, −0.02, 0; 64+ masks each; lines with full, "
    "minimal and intermediate capabilities and GenDirect vs the full-mask reference; GenInverse: all 256 masks (2^7 × LONG_UNROLL) on 8 kinds of "
    "problems (random, meridional, equatorial, short, nearly antipodal, coincident, polar, a few ulps apart on a meridian) × three solvers, with the "
    "stack painted −1 / +1 / NaN before every call; Rhumb GenDirect / RhumbLine::GenPosition / GenInverse (series and exact) for all masks incl. "
    "meaningless bits, long lines that wrap the longitude. "
    "overloads: each of the 74 inline overloads of Direct / ArcDirect / Inverse / Position / ArcPosition (and Rhumb's pass-through wrappers) of the six "
    "classes against the general function with the mask made of the flags of its reference parameters, all eight output slots pre-filled with "
    "sentinels, on lines with full and with partial capabilities; the set of overloads exercised is compared with the table extracted from the headers. "
    "third point: random histories of 1–12 events (SetDistance, SetArc, GenSetDistance, Distance, Arc, GenDistance, copy) over all 512 capability sets × "
    "{GeodesicLine, line of Geodesic(exact=true), GeodesicLineExact} × 8 constructors (Line class, Geodesic::Line, default, DirectLine, ArcDirectLine, "
    "GenDirectLine ×2, InverseLine), arguments incl. ±0, NaN, ±inf. "
    "non-trivial = at least one output written / one event; distinct = distinct (op, arguments)")

PROPS["C12"]["tolerances"] = {
    "written sets / NaN return / Capabilities": "exact",
    "line, GenDirect, rhumb values vs full mask; overload vs general function": "bit-for-bit",
    "third point: object with history vs Lean state machine driven by kernel values from fresh objects": "bit-for-bit (NaN ≡ NaN)",
    "GenInverse a12, s12, azi, S12 vs full mask": "bit-for-bit",
    "GenInverse m12, M12, M21 vs full mask": "8 ulp + 1 nm / 4e-15 (the property says 'beyond round-off'; the theorems show they are in fact the same term)",
    "arc vs distance, Distance() vs Arc()": "100 nm × max(1, a12/180) on WGS84 and the sphere"}

PROPS["C12"]["level_text"] = (
    "Theorems (Props/C12.lean). "
    "(1) Mask algebra on the enums re-read from the headers: documented bit layout; an output of GenPosition is written iff its bit is in "
    "outmask ∩ caps ∩ OUT_MASK and the point is locatable; written set monotone/additive; nothing written and NaN returned without DISTANCE_IN in "
    "distance mode; LATITUDE, AZIMUTH, LONG_UNROLL always available [executed model, compared exactly with the implementation]. "
    "(2) Third point of a line object — a state machine (Model/LineState.lean: constructors Line / default / GenDirectLine / DirectLine / ArcDirectLine / "
    "InverseLine, SetDistance, SetArc, GenSetDistance, Distance, Arc, GenDistance, Capabilities, around abstract kernels arcOf / distOf) that the driver "
    "executes against the implementation: history_independent and reader_history_independent (by induction over arbitrary histories: state and every "
    "reader value depend only on the last setter call), caps_invariant, guards_spec, setDistance_spec / setArc_spec (exactly which component is NaN "
    "when DISTANCE_IN / DISTANCE is missing; SetArc never keeps an earlier distance), default_line_reads_nan, initialised_reads, third_point_consistent "
    "(under the kernel contract posA(arcOf s) = posD s, posD(distOf a) = posA a: whenever Arc() and Distance() are both numbers they address the same "
    "point), directLine_spec / arcDirectLine_spec / inverseLine_spec / constructors_reproduce_endpoint, capabilities_spec, capabilities_of_line; "
    "state_machine_matches_dataflow (run with kernels read off the symbolic GenPosition model, the executed machine reproduces that model's SetDistance / SetArc). "
    "(3) Overload table [Gen, re-extracted from the five headers each run]: overload_table_ok — for each of the 74 inline overloads the mask passed to "
    "the general function is exactly the union of the flags of its reference parameters, each reference parameter is passed in the slot of the same "
    "name, all other slots get a scratch local, inputs are passed in order with the right arcmode literal, the return value is handed on; "
    "line_enums_agree. "
    "(4) Dataflow models (expression trees over uninterpreted symbols; hand-written, not executed — validated by the bit-for-bit oracles): GenPosition "
    "series/exact (value_mask_independent, genPosition_isSome_iff, value_caps_independent, cap_bits, third_point_*); GenInverse series/exact with the "
    "masks handed to Lengths taken from Gen/LengthMask.lean [re-extracted from Geodesic.cpp / GeodesicExact.cpp each run]: geod_lengthmask_canonical, "
    "geodx_lengthmask_canonical (decide +kernel over all 512 flag unions), geod_inverse_value_mask_independent (every output and a12, every branch, "
    "all masks), geod_inverse_no_uninit (no unassigned local is read), inverse_written_spec (assigned ⇔ in the executed writtenInverse, both solvers); "
    "geodx_inverse_value_mask_independent: the same full statement for GeodesicExact::GenInverse since the repair dc6d194 of finding F67 (the meridional Lengths call now asks for DISTANCE under every mask: Gen obligation geodx_meridian_distance_always; the _partial version with the explicit hypothesis is kept); Rhumb: rhumbPosition_mask_independent (S12 independent of LONG_UNROLL and of the other requests, "
    "both sides of the pole), rhumbPosition_isSome_iff, rhumbInverse_mask_independent, rhumbInverse_isSome_iff. "
    "Correspondence only (no theorem): the numeric kernels themselves; that the hand-written dataflow terms are what the C++ computes.")

PROPS["C12"]["level_note"] = (
    "mask enums of Geodesic, GeodesicExact, Rhumb and of the three line classes, the table of inline overloads, and the mask expressions GenInverse "
    "passes to Lengths are regenerated from the sources each run (Gen/Mask.lean, Gen/Overloads.lean, Gen/LengthMask.lean); hand-written models of the "
    "mask logic, of the third-point state machine (executed against the implementation) and of the dataflow of GenPosition / GenInverse / rhumb (not executed)")

PROPS["C12"]["technique"] = (
    "Lean 4: proofs by induction over histories of a state machine that is also executed against the implementation; decide / decide +kernel "
    "certificates over tables and mask expressions extracted from the current sources; symbolic dataflow theorems; exhaustive exact correspondence of "
    "written sets; bit-for-bit property oracles on the implementation")

PROPS["C12"]["assumptions"] = [
    "the dataflow models (which intermediate quantity each output is formed from, under which mask test) are hand-written from the C++ and not executed; "
    "they are validated by the bit-for-bit value-independence oracles of the harness",
    "third_point_consistent / constructors_reproduce_endpoint assume the kernel contract (arc and corresponding distance give the same point), which "
    "the implementation satisfies only up to round-off: checked by the harness with the documented 100 nm tolerance",
    "default-constructed objects are built over painted memory; reading the indeterminate member _exact is undefined behaviour in C++ (finding F66)"]
