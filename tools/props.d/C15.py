PROPS["C15"] = dict(
    harnesses=[dict(name="C15", procs_quick=2, procs_thorough=16, extra=["-lquadmath"])],
    gens=["gen_auxseries", "gen_carlson"],
    rule=("auxiliary latitudes: ellipsoids f in {WGS84, +-1/150, 1/297, +-1e-3, 0, 1e-6, random |f| <= 1/150} (series and exact) and b/a log-uniform in "
          "[0.01, 100] plus a list (exact only); geographic latitude: uniform, 90 - 10^-k deg (k <= 15), tangents 10^+-k (k <= 300), denormal tangents and "
          "cotangents, 45 deg +- ulps, unnormalized (y, x) pairs, all four quadrants; for each, the six latitudes are produced by the implementation and all 36 "
          "(from, to) pairs are converted (exact; series when |f| <= 1/150), plus oddness / fixed points / monotonicity on ulp-neighbours. Ellipsoid: a in "
          "{1e-3 .. 1e9}, latitudes incl. poles, 90 - 10^-k, denormal and out-of-range. Elliptic: k2 in (0,1), 1 - 10^-(0..12), -10^(-3..6), anchors, "
          "10^-(0..10), k2 = 1; alpha2 = 0, (0,1), 1 - 10^-(0..10), -10^(-3..5), = k2; phi in each quadrant, +-20 pi, next to and at multiples of pi/2, tiny. "
          "Carlson: arguments 10^(-15..15) x common scale 10^(-100..100), zeros allowed by the documentation, equal and nearly equal arguments. "
          "non-trivial = compared with an oracle value that agrees with itself at two subdivision depths; distinct = distinct (op, leading argument bits)"),
    tolerances={
        "exact latitude conversion": "relative error of tan(result) <= 16 ulp x (1 + |e'^2| + [chi involved] |psi(phi) - psi(chi)|), e'^2 = e2/(1-e2) (condition of 1 - e2 in the stored e2; of sinh in the isometric-latitude difference); denormal tangents: + 64 quanta x (1 + 1/e) absolute",
        "series latitude conversion": "16 ulp + 8 x max_j Sum_l l |[n^j] C_l| |n|^(L+1) (j in {L-1, L}; computed in Lean from the extracted tables), |f| <= 1/150; series path vs Lean model: 64 ulp per component",
        "Ellipsoid measures": "8-16 ulp x (1 + |e'^2|) vs quadrature / closed forms; degree interfaces: 4 ulp of the angle + 16 ulp of the tangent; other classes: 8 ulp (areas), 64 ulp (equator-to-pole distances, within each class's documented range)",
        "flattening interconversions": "4 ulp vs the Lean formula models; round trips 8 ulp x (1 + condition number of the inverse x (1 + that of the forward function))",
        "elliptic integrals": "16 ulp x (1 + |integrand sin cos / integral|) vs quadrature; Pi, G, H for alpha2 < 0 relative to max(F, E) (their Carlson representation F + alpha2(...) cancels); periodic parts relative to the two terms of the difference",
        "Carlson forms": "16 ulp vs quadrature of the defining integral",
        "oracle": "Gauss-Legendre 32 on panels graded geometrically towards integrand peaks, long double; a case is compared only if depths 1 and 2 agree to 1e-17 (1e-16 Carlson)",
    },
    level_text=("Table certificates (decide +kernel over exact rationals, re-checked against coeffs[]/ptrs[] of AuxLatitude.cpp extracted on every run): layout of "
                "ptrs[]/coeffs[] and the aux enum; the six tables among phi, beta, theta equal their closed forms ((-n)^l/l, n^l/l, and the same in m = 2n/(1+n^2)); "
                "mu<-beta equals the binomial series of the meridian-arc integrand; the chi<-phi and xi<-phi tables satisfy the defining differential equations "
                "modulo n^(L+1) (xi together with the AuthalicRadiusSquared polynomial); the RectifyingRadius and AuthalicRadiusSquared polynomials equal their closed "
                "forms; for all 15 pairs the two opposite series compose to the identity modulo n^(L+1) (aux_revert); nine compositions connect every remaining table "
                "to those (aux_compose_partial) - together these pin all 30 tables. Theorems over the reals about the formula models the driver executes in binary64 "
                "against the implementation: ellipsoid parameter algebra, the flattening/eccentricity interconversions are mutually inverse on their domains, the series "
                "path of Convert (fillcoeff + Clenshaw + rotation) is odd and fixes 0 and +-90 deg for every coefficient vector, Carlson duplication-step identities and "
                "the DLMF 19.36.1-2 polynomial tails. Correspondence only (oracle on the implementation, no theorem): accuracy of the exact conversions, Newton "
                "inversion, all Ellipsoid measures, all elliptic integrals/functions and Carlson forms against quadrature of their defining integrals. Partial: no "
                "theorem relates the generating functions/ODEs to the integrals (stated as definitions), aux_compose for all 120 triples is evaluated but not "
                "kernel-checked, no floating-point error bounds are proved."),
    level_note=("coeffs[], ptrs[], series order, the aux enum and both radius polynomials regenerated from AuxLatitude.cpp/.hpp each run; hand-written models of the "
                "Ellipsoid.hpp inline functions and of fillcoeff/Clenshaw; harness oracles in x87 long double / __float128 (libquadmath), independent of the library; "
                "open findings F38-F42 (accuracy losses in stated argument classes, NaN for denormal tangents) are printed as KNOWN-FINDING"),
    technique="Lean 4 series-CAS certificates (decide +kernel) for the extracted tables + exact-real theorems on executable formula models + quadrature-oracle correspondence",
    assumptions=["the closed forms / differential equations used as specifications of the latitudes are the textbook definitions (Karney 2024, eqs. for beta, theta, mu, chi, xi)",
                 "truncation of the order-L series is bounded by 4 x the last retained coefficients (growth allowance) - used only as a tolerance"],
)
