PROPS["C15"] = dict(
    harnesses=[dict(name="C15", procs_quick=2, procs_thorough=16, extra=["-lquadmath"])],
    gens=["gen_auxseries", "gen_carlson"],
    rule=("auxiliary latitudes: ellipsoids f in {WGS84, +-1/150, 1/297, +-1e-3, 0, 1e-6, random |f| <= 1/150} (series and exact) and b/a log-uniform in "
          "[0.01, 100] plus a list (exact only); geographic latitude: uniform, 90 - 10^-k deg (k <= 15), tangents 10^+-k (k <= 300), denormal tangents and "
          "cotangents, 45 deg +- ulps, unnormalized (y, x) pairs, all four quadrants; for each, the six latitudes are produced by the implementation and all 36 "
          "(from, to) pairs are converted (exact; series when |f| <= 1/150), plus oddness / fixed points / monotonicity on ulp-neighbours; the same angles through "
          "ToAuxiliary (with derivative), FromAuxiliary (with iteration count), the degree overload of Convert (incl. +-90, +-180, 270, 360, 450, +-540, 720, 1e17 and "
          "whole turns added), AuxLatitude::axes(a, b), the constructors' rejections, the static WGS84 objects. AuxAngle: (y, x) from the same generator with "
          "signed zeros, infinities, (0,0), (inf,inf), NaN, components beyond max/2, second operand with zero tangent; Clenshaw sine and cosine sums of 0..8 terms. "
          "Ellipsoid: a in {1e-3 .. 1e9}, latitudes incl. poles, 90 - 10^-k, denormal and out-of-range, isometric latitudes +-200 and 0, 1e-300, +-1e5. "
          "Elliptic: k2 in (0,1), 1 - 10^-(0..12), -10^(-3..6), anchors, 10^-(0..10), k2 = 1; alpha2 = 0, (0,1), 1 - 10^-(0..10), -10^(-3..5), = k2; phi in each "
          "quadrant, +-20 pi, next to and at multiples of pi/2, tiny; (sn, cn) incl. (+-0, +-1), (+-1, +-0); Ed at random angles, all multiples of 90 deg up to "
          "+-1080 and +-180, +-540, 900, 180 +- ulp, 1e16; every combination of k2, alpha2 in {0, 1, generic, negative} for Reset (both overloads, default "
          "constructor, rejected parameters); sncndn/am/Einv/deltaEinv at multiples of E and K, tiny arguments, k2 = 1. "
          "Carlson: arguments 10^(-15..15) x common scale 10^(-100..100), zeros allowed by the documentation, equal and nearly equal arguments. "
          "non-trivial = compared with an oracle value that agrees with itself at two subdivision depths, or with the Lean model; distinct = distinct (op, leading argument bits)"),
    tolerances={
        "exact latitude conversion": "relative error of tan(result) <= 16 ulp x (1 + |e'^2| + [chi involved] |psi(phi) - psi(chi)|), e'^2 = e2/(1-e2) (condition of 1 - e2 in the stored e2; of sinh in the isometric-latitude difference); denormal tangents: + 64 quanta x (1 + 1/e) absolute",
        "series latitude conversion": "16 ulp + 8 x max_j Sum_l l |[n^j] C_l| |n|^(L+1) (j in {L-1, L}; computed in Lean from the extracted tables), |f| <= 1/150; series path vs Lean model: 64 ulp per component",
        "Ellipsoid measures": "8-16 ulp x (1 + |e'^2|) vs quadrature / closed forms; degree interfaces: 4 ulp of the angle + 16 ulp of the tangent; other classes: 8 ulp (areas), 64 ulp (equator-to-pole distances, within each class's documented range)",
        "flattening interconversions": "4 ulp vs the Lean formula models; round trips 8 ulp x (1 + condition number of the inverse x (1 + that of the forward function))",
        "elliptic integrals": "16 ulp x (1 + |integrand sin cos / integral|) vs quadrature; Pi, G, H for alpha2 < 0 relative to max(F, E) (their Carlson representation F + alpha2(...) cancels); periodic parts relative to the two terms of the difference; X(phi + pi) - X(phi) = 2 X(): 32 ulp of the terms + the rounding of phi + pi through the integrand",
        "Carlson forms": "16 ulp vs quadrature of the defining integral; symmetry 8 ulp (RG 32 ulp); RC(x, y) = RF(x, y, y) 8 ulp",
        "Lean models (m15_* ops)": "|implementation - model value| <= 4 x running-error bound of the model's own binary64 evaluation on the same inputs (FP/RunErr.lean: first-order bound, u per correctly rounded operation, 2u per libm call, computed per input, nothing fitted); iteration counts within +-2; exceptions and NaN-ness equal",
        "derivative returned by ToAuxiliary": "1e-5 relative against the central difference of the defining expressions (binary128 / quadrature)",
        "oracle": "Gauss-Legendre 32 on panels graded geometrically towards integrand peaks, long double; a case is compared only if depths 1 and 2 agree to 1e-17 (1e-16 Carlson)",
    },
    level_text=("(A) Table certificates (decide +kernel over exact rationals, re-checked against coeffs[]/ptrs[] of AuxLatitude.cpp extracted on every run): layout of "
                "ptrs[]/coeffs[] and the aux enum; the six tables among phi, beta, theta equal their closed forms; mu<-beta equals the binomial series of the meridian-arc "
                "integrand; the chi<-phi and xi<-phi tables satisfy the defining differential equations modulo n^(L+1); the two radius polynomials equal their closed "
                "forms; for all 15 pairs the opposite series compose to the identity modulo n^(L+1) (aux_revert); aux_compose: C[c<-a] = C[c<-b] o C[b<-a] modulo n^(L+1) "
                "for ALL 120 ordered triples of distinct latitudes, one kernel-checked certificate per triple (split over 28 modules, about 10 s each, rebuilt only when "
                "the table changes); ind(auxout, auxin) is a bijection of [0,6)^2 onto the 36 slots and -1 elsewhere. "
                "(B) Constants of EllipticFunction.cpp, re-extracted on every run by a symbolic evaluation of the C++ expressions (Gen/Carlson.lean) and proved equal to "
                "those of the executed model: the numerator polynomials of the final series of RF, RD, RJ as monomial tables (so an equivalent re-arrangement of the "
                "Horner form is harmless), their denominators 240240 / 4084080, the multipliers 3 and 6 of the accumulated sums, the weights of the means A0, E2..E5 as "
                "polynomials in the deviations, the eighth powers of tolRF/tolRD, tolRG0, the three tolJAC, the trip caps and num_; the Horner forms are DLMF 19.36.1-2. "
                "(C) Theorems over the reals about the SAME definitions the driver executes in binary64 (Model/Elliptic.lean, Model/AuxExact.lean, Model/AuxLat.lean), for "
                "all inputs and every trip budget: each Carlson trip keeps An the (weighted) mean of the current arguments and divides the deviations by exactly 4 "
                "(RF, RD, RJ incl. mul3 = mul^3 and delta_{n+1} = delta_n/64), hence X, Y, Z computed from the original arguments are the relative deviations of the "
                "current ones; non-negative arguments with at most one zero stay positive; a loop left through its test has all |X| < tol and |X|^8 < 3 eps/100; RF is "
                "symmetric under every permutation, RD in (x, y), RJ in (x, y, z) although the code is not syntactically symmetric; E2..E5 are the elementary symmetric "
                "functions of the five deviations; RG's permutation makes z the median; RC's circular, hyperbolic and diagonal closed forms satisfy "
                "RC(x, y) = 2 RC(x + lam, y + lam). sncndn: sn^2 + cn^2 = 1 for every parameter and argument; the descending Landen step preserves "
                "dn^2 (c^2 + a^2) = c^2 + b^2 along the AGM chain for EVERY depth, the ascending loop produces such a chain, so a seed satisfying the relation gives "
                "dn^2 = cn^2 + k'^2 sn^2 exactly; the code's seed dn = 1 misses it by exactly ((a_L - b_L)/2)^2 <= (tolJAC a_L / 2)^2 (the identity is therefore NOT exact for "
                "the code, and is not claimed). The frame of F, E, D, Pi, G, H(sn, cn, dn) is odd in sn and reflects about pi/2 for every kernel even in sn, cn (the six "
                "Carlson kernels are); the periodic parts delta* have period pi for every X whatsoever; X(phi + pi) = X(phi) + 2 X() for every phi through all four "
                "branch combinations of the period handling, for every kernel with values in [0, 2X()]; Ed: a turn adds 4E; Einv(x + 2E) = Einv(x) + pi, its reduced "
                "argument lies in [-E, E), when the Newton loop ends the last iterate satisfies |E(phi) - x| <= tolJAC min(1, |result|) Delta(phi) (relative stopping test of /repo 84b53d7) and a fixed point is a solution; "
                "deltaEinv has period pi. AuxAngle: normalized() is the unit vector of the same direction, copyquadrant, += is angle addition and the identity for "
                "zero tangent, radians/lam/lamd invert their static counterparts, degrees() (atan2d with its octant reduction) is the argument in every octant. "
                "AuxLatitude: the constructor's parameters, axes(a, b) = (a, (a-b)/a) member by member, tan beta = (1-f) tan phi, tan theta = (1-f)^2 tan phi, exact "
                "conversions among phi, beta, theta multiply the tangent by (1-f)^(to-from), mu = (pi/2) sa/(sa+sb) with the cosine taken from the complementary arc, the "
                "cancellation-free form of tan chi for f > 0 equals the taupf expression (sigma < tan phi / 2 branch; prolate: used directly), the authalic pair has "
                "modulus q(pi/2) for every Dq kernel satisfying its defining relation, FromAuxiliary's Newton loop: an exit through the equality test is a solution, a "
                "converged exit is one plain Newton step, the count is bounded. Ellipsoid: QuarterMeridian = (pi/2) RectifyingRadius(exact) = 2 RG(a^2, b^2), "
                "Area = 4 pi AuthalicRadiusSquared(exact) = 2 pi (a^2 + b^2 asinh(e')/e) resp. atan(e)/e resp. 4 pi a^2, Euler's formula for the normal curvature radius, "
                "M = N(1-e^2)/(1-e^2 sin^2), CircleRadius = N cos phi, CircleHeight = N(1-e^2) sin phi (a point of the ellipse), the parameter algebra and the "
                "flattening/eccentricity interconversions with their inverses; the series path of Convert is odd and fixes 0, +-90 deg for every coefficient vector. "
                "(D) Correspondence, every run: the models of every Carlson form, Reset (all special cases, both overloads), sncndn, am, Delta, the (sn, cn, dn) and "
                "angle interfaces with their periodic parts, Ed, Einv, deltaEinv, every AuxAngle function, the AuxLatitude constructors, ToAuxiliary with derivative, "
                "FromAuxiliary with count, exact Convert for all 36 pairs, the degree overload's turn bookkeeping, Clenshaw (sine and cosine), and the Ellipsoid measures "
                "are executed in running-error arithmetic on the inputs the harness gives the implementation and must agree within 4 x the bound. "
                "(E) Oracles on the implementation (no theorem): accuracy of all of the above against quadrature of the defining integrals / closed forms in 80-bit and "
                "binary128, closures, symmetries, Legendre's relation, monotonicity, cross-class agreement. "
                "NOT proved: the duplication theorem itself and that the generating functions / ODEs are the integrals (no measure theory); the series remainder bound "
                "beyond the stated |X|^8 < 3 eps/100; the divided-difference branch of Conformal and the closed form of Dq (kernels with contracts); am; Legendre's relation "
                "(oracle); no floating-point error bound is a theorem (running-error bounds are computed, not proved)."),
    level_note=("coeffs[], ptrs[], series order, the aux enum, both radius polynomials (AuxLatitude.cpp/.hpp) and the Carlson series tables, means, E-definitions, "
                "tolerances, trip caps, num_ (EllipticFunction.cpp/.hpp) regenerated each run; hand-written models of EllipticFunction, AuxAngle, AuxLatitude (series and "
                "exact), Ellipsoid; Math::sincosd/sind/AngNormalize are not modelled here (C16): the degree interfaces take their values from the implementation; "
                "the signbit(_kp2) branch of sncndn is unreachable (Reset rejects kp2 < 0) and not modelled; harness oracles in x87 long double / __float128 "
                "(libquadmath), independent of the library; open findings F38, F38b, F40, F41 (am only; the Einv half was repaired by /repo 84b53d7 = F93 and the model follows), F42(rest) "
                "(accuracy losses in stated argument classes, NaN for denormal / near-overflow tangents) are printed as KNOWN-FINDING"),
    technique=("Lean 4: series-CAS certificates (decide +kernel) for the extracted tables, exact-real theorems (induction over loop budgets and AGM stacks) on executable "
               "polymorphic models, execution of the same models in running-error arithmetic against the implementation, quadrature-oracle correspondence"),
    assumptions=["the closed forms / differential equations used as specifications of the latitudes are the textbook definitions (Karney 2024, eqs. for beta, theta, mu, chi, xi)",
                 "truncation of the order-L series is bounded by 4 x the last retained coefficients (growth allowance) - used only as a tolerance",
                 "Carlson's duplication theorem and DLMF 19.36.1-2 (the series the loops feed) are taken from the literature; the theorems cover the algebra of the algorithm, not the integral identities",
                 "libm calls are faithful to 1 ulp (running-error rule); Lean's Float calls the same libm as the harness"],
)
