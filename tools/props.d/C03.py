# C03: additions for the Lean model of GeodesicLine::GenPosition (Model/GeodLine.lean)
_P = PROPS["C03"]
_P["rule"] += "; every direct segment is also run through the model correspondence of GeodesicLine (ops lineinit, genpos of Corr/C01.lean: m12, M12, M21, S12 of GenPosition against Model/GeodLine.lean)"
_P["tolerances"]["model correspondence (lineinit, genpos)"] = "as in C01: 4 × the computed first-order running error bound of the model's binary64 evaluation (FP/RunErr.lean)"
_P["level_text"] += (" GeodesicLine::GenPosition (reduced length, geodesic scales, area) is modelled in Lean (Model/GeodLine.lean) and executed against the "
                     "implementation on every direct segment; theorem line_lengths_agree: over ℝ, GenPosition (direct interface) and Geodesic::Lengths "
                     "(inverse interface) return the same s12, m12, M12, M21 on the same arc.")

# ---- deepening round G01 ---------------------------------------------------------------------------------------------------------
_P["rule"] = (
    "direct segments on f = WGS84 (1/3), {0, ±1e-3, ±1/150, ±0.01, ±0.02, 0.5, −1} (7/10 of the rest), series with documented degradation {±0.05, ±0.1, "
    "±0.2}, b/a ∈ {1/4, 4, 1/8, 8, 1/16, 16, 0.04, 25, 0.02, 50, 0.01, 100}; lat1 uniform in ±89 or {0, ±45, 89.9, −0, 1e-10}; azi1 uniform or {±90, "
    "1e-10, 45, 135, 1e-4}; lon1 in [−180, 180] or [−720, 720]; distance and arc, within half a circuit or up to two circuits, arcs at and near "
    "multiples of 180°. Every segment: m12, M12, M21, S12 requested through EVERY documented route of Geodesic, GeodesicExact and Geodesic(a,f,true) "
    "— GenDirect with each single-output mask, REDUCEDLENGTH|GEODESICSCALE, ALL, ALL|LONG_UNROLL; the 6 Direct / 7 ArcDirect overloads; Line, "
    "DirectLine / ArcDirectLine with the 6 Position / 7 ArcPosition overloads and GenPosition with each mask; the line constructor; GenDirectLine; "
    "lines constructed with a single capability (e.g. GEODESICSCALE only, what CassiniSoldner does) — each compared with the oracle and with "
    "GenDirect(ALL); every fourth segment through tools/GeodSolve −f, every fourth point pair through GeodSolve −i −f (with and without −E), run in-process. Point pairs (|f| ≤ 0.02, 0.5, −1): the 7 Inverse overloads and "
    "GenInverse with each single-output mask against the full overload, InverseLine at its third point, reversal, addition rules at 37 % of the "
    "segment, triangle sums, EllipsoidArea. Model correspondences: lineinit/genpos (series, |f| ≤ 0.2), xgeodconst/xlineinit/xgenpos (exact line, every "
    "f), lengths. non-trivial = finite values compared with the oracle; distinct = distinct (op, leading argument bits)")
_P["tolerances"].update({
    "m12": "2 × the position tolerance of C01 (documented accuracy over the whole documented flattening range of each solver × size × path length)",
    "M12, M21": "2·tol/ρmin + 8e-16 (1 + |M|), relative to max(1, |M|); ρmin = min(b²/a, a²/b), the smallest principal radius of curvature of the ellipsoid (the scales are derivatives of positions with respect to positions)",
    "S12 vs oracle": "series 0.4 m² (|f| ≤ 1/100), 1.5 m² (≤ 1/50); exact 4 m² (b/a within 1.05), 60 m² (b/a ∈ [1/2, 2]) — × (a/a_WGS84)² × max(1, a12/180) × max(1, 0.25/|sin α0|); not judged beyond these flattenings (no documented figure) nor where the path comes within 3° of a pole",
    "routes vs GenDirect(ALL)": "the same tolerances (on the unchanged tree the routes are bit-identical); S12: 1e-9 relative + the S12 tolerance (1 m² where none is documented)",
    "GeodSolve −f": "every printed field within half a unit of its last printed digit (+ 2 ulp) of the library value",
})
_P["level_text"] += (
    " Deepening: theorems about the expressions both lines evaluate for m12, M12, M21 (m12f, M12f, M21f of Model/GeodLineExact.lean; "
    "genpos_scales_are_formulas / xgenpos_scales_are_formulas: the executed models of GeodesicLine::GenPosition and GeodesicLineExact::GenPosition "
    "return exactly these), for unit (sin σ, cos σ), dn² = 1 + k² sin²σ, dn > 0 and an arbitrary additive J: scales_reversal (exchanging the end "
    "points and negating J negates the signed m12/b and exchanges M12, M21), addition_rule_m (m13 = m12 M23 + m23 M21), addition_rule_M(_div) "
    "(M13 = M12 M23 − (1 − M12 M21) m23/m12), scales_wronskian (M12 M21 − m12·dM12/ds2 = 1 with b·dM12/ds2 = dM12f); xgenpos_wronskian: the "
    "Wronskian identity on the executed model of the exact line for every kernel; delta_sq (EllipticFunction::Delta is √(1 + k² sin²σ) in both "
    "branches); dstIntegral_eq (DST::integral(sin x, cos x, F) = −Σ F_i/(2i+1) cos((2i+1)x) for every coefficient vector); c2_exact_eq_series (for 0 < f < 1 the _c2 of GeodesicExact, written with asinh √e′², and the _c2 of Geodesic, written with e·atanh e, are the same real number (a² + b² atanh(e)/e)/2, the closed form behind EllipsoidArea = 4π c2). The exact line's "
    "GenPosition (m12, M12, M21, and S12 when the DST has ≤ 400 coefficients) is executed against the implementation for every flattening. Not "
    "proved: that dM12f is the derivative of the coded M12 (derivation in a comment only); the DST coefficients and the I4 integrand of the exact "
    "area (oracle only); accuracy figures.")
_P["technique"] = "Lean 4 algebraic identities (reversal, addition rules, Wronskian of the coded expressions), table certificates, executable line models + quadrature-oracle correspondence over every documented route and mask"

# the harness compiles $GV_REPO/tools/GeodSolve.cpp into itself (harness/C01_tool.hpp): include path of the usage stub, and a cache key
# that depends on the tool's text (the generic key covers only the library and the harness sources)
import hashlib as _hl, os as _os
def _tools_digest():
    h = _hl.sha256()
    p = _os.path.join(_os.environ.get("GV_REPO", "/repo"), "tools", "GeodSolve.cpp")
    try:
        h.update(open(p, "rb").read())
    except OSError:
        h.update(b"missing")
    return h.hexdigest()[:16]
_verif = _os.path.dirname(_os.path.dirname(_os.path.dirname(_os.path.abspath(__file__))))
_P["harnesses"] = [dict(name="C03", procs_quick=4, procs_thorough=16,
                        extra=["-I" + _os.path.join(_verif, "harness", "C01_tools"), "-DGV_TOOLS_DIGEST=0x" + _tools_digest()])]

# seeded round 8 (C03G): segments exactly over a pole
PROPS["C03"]["level_note"] = PROPS["C03"].get("level_note", "") + (
    " Added after seeded round 8: stratum 'exactly over a pole' (longitudes exactly 180 degrees apart, same hemisphere) with the relation polar-segment-S12 — "
    "the series and the exact solver give the same S12 outright (gross tolerance 1e-8 of the ellipsoid area; the triangle relation works modulo half the "
    "ellipsoid area and cannot see a flipped sign), and a segment and its reverse cancel modulo the ellipsoid area.")
