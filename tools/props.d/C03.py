# C03: additions for the Lean model of GeodesicLine::GenPosition (Model/GeodLine.lean)
_P = PROPS["C03"]
_P["rule"] += "; every direct segment is also run through the model correspondence of GeodesicLine (ops lineinit, genpos of Corr/C01.lean: m12, M12, M21, S12 of GenPosition against Model/GeodLine.lean)"
_P["tolerances"]["model correspondence (lineinit, genpos)"] = "as in C01: 4 × the computed first-order running error bound of the model's binary64 evaluation (FP/RunErr.lean)"
_P["level_text"] += (" GeodesicLine::GenPosition (reduced length, geodesic scales, area) is modelled in Lean (Model/GeodLine.lean) and executed against the "
                     "implementation on every direct segment; theorem line_lengths_agree: over ℝ, GenPosition (direct interface) and Geodesic::Lengths "
                     "(inverse interface) return the same s12, m12, M12, M21 on the same arc.")

# the harness compiles $GV_REPO/tools/GeodSolve.cpp into itself (harness/C01_tool.hpp): include path of the usage stub, and a cache key
# that depends on the tool's text (the generic key covers only the library and the harness sources)
import hashlib as _hl, os as _os
def _tools_digest():
    h = _hl.sha256()
    p = _os.path.join(_os.environ.get("GV_REPO", "/repo"), "tools", "GeodSolve.cpp")
    try:
        h.update(open(p, "rb").read())
    except OSError:
        h.update(b"missing")
    return h.hexdigest()[:16]
_verif = _os.path.dirname(_os.path.dirname(_os.path.dirname(_os.path.abspath(__file__))))
_P["harnesses"] = [dict(name="C03", procs_quick=4, procs_thorough=16,
                        extra=["-I" + _os.path.join(_verif, "harness", "C01_tools"), "-DGV_TOOLS_DIGEST=0x" + _tools_digest()])]
