# C03: additions for the Lean model of GeodesicLine::GenPosition (Model/GeodLine.lean)
_P = PROPS["C03"]
_P["rule"] += "; every direct segment is also run through the model correspondence of GeodesicLine (ops lineinit, genpos of Corr/C01.lean: m12, M12, M21, S12 of GenPosition against Model/GeodLine.lean)"
_P["tolerances"]["model correspondence (lineinit, genpos)"] = "as in C01: 4 × the computed first-order running error bound of the model's binary64 evaluation (FP/RunErr.lean)"
_P["level_text"] += (" GeodesicLine::GenPosition (reduced length, geodesic scales, area) is modelled in Lean (Model/GeodLine.lean) and executed against the "
                     "implementation on every direct segment; theorem line_lengths_agree: over ℝ, GenPosition (direct interface) and Geodesic::Lengths "
                     "(inverse interface) return the same s12, m12, M12, M21 on the same arc.")
