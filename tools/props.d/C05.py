# C05: deepening round (coverage audit: MGRS::Decode / Check, GeoCoords MGRS glue, GeoConvert -m values, documented lettering / ranges)
import hashlib as _hl, os as _os

_verif = _os.path.dirname(_os.path.dirname(_os.path.dirname(_os.path.abspath(__file__))))
_repo = _os.environ.get("GV_REPO", "/repo")


def _tool_digest():
    # harness/C05.cpp compiles $GV_REPO/tools/GeoConvert.cpp into itself: the harness cache key must depend on its text
    try:
        return _hl.sha256(open(_os.path.join(_repo, "tools", "GeoConvert.cpp"), "rb").read()).hexdigest()[:16]
    except OSError:
        return "0"


_P = PROPS["C05"]
_P["harnesses"] = [dict(name="C05", procs_quick=2, procs_thorough=16,
                        extra=["-I" + _os.path.join(_verif, "harness", "C10_tools"), "-DGV_TOOLS_DIGEST=0x" + _tool_digest()])]
_P["gens"] = ["gen_math", "gen_utm"]
_P["rule"] += ("; deepening round: northern northings −1e-10, −9.4e-10, −1e-300, −5e-324 (the fold to the southern hemisphere rounds to 10^7 / underflows: finding F82); MGRS::Decode on every "
               "decoder input and on texts of the documented shape (0–3 digits, 0–4 letters incl. lower case, I and O, 0–24 digits, NUL / space / high-bit mutations, INV forms); MGRS::Check; "
               "coverage points (mgrs_cover): every zone edge and the edges moved by the Norway / Svalbard exceptions × latitudes −90, −80, −72, ±0, 8, 56, 64, 72, 84, 90 and their predecessors, "
               "both sides of the meridian, plus 600 uniform points; GeoCoords::MGRSRepresentation / AltMGRSRepresentation (gc_mgrs) on objects from (lat, lon) and (zone, northp, x, y) "
               "incl. the equator under both labels, SetAltZone ∈ {MATCH, STANDARD, UTM, zone ± 1}, prec −8…8; tools/GeoConvert -m (gconv_m) with none / -s / -t / -S / -T / -z, -p −7…7, -n on 1–4 "
               "lines (positions next to square edges at every precision: truncation, not rounding)")
_P["tolerances"].update({
    "documented-lettering (zone digits, band / column / row letters, UPS letters)": "exact against the arithmetic of the MGRS lettering scheme in harness/C04_doc.hpp (alphabet without I and O in sets A–H / J–R / S–Z, rows A–V from the equator, +5 in even zones, UPS columns additionally without D E M N V W counting up from A east and down from Z west of the pole); band letter: a neighbour within 22 nm of a band edge",
    "digits": "exact truncation for prec ≤ 5 (integer arithmetic on ⌊x⌋); for prec 6…11 within one unit of the exact ⌊x·10^(prec−5)⌋ (128-bit integer arithmetic; MGRS.hpp: 'accurate to roundoff')",
    "documented-range (MGRS::Forward accepts exactly zones 0..60, prec −1..11 and the ranges of MGRS.hpp)": "exact, strictly inside / strictly outside",
    "MGRS::Decode": "parts equal to the model and to the documented grammar, exactly",
})
_P["level_text"] += (
    " DEEPENING ROUND. Coverage audit: never called before and now exercised — MGRS::Decode (op mgrs_decode), MGRS::Check (op mgrs_selftest: it must not throw; it checks that x = 100 km reaches "
    "lon < 0 at the equator in zone 31, that UTM at x = 100 km reaches 84° at y = 9500 km and −80° at y = 1000 km (S), that the Norway and Svalbard exceptions leave x > 100 km at (56, 3) in zone 32 "
    "and (72, 21) in zone 35, that UPS at (2000, 1300) km / (2000, 800) km reaches below 84° / above −80°, and that 64 points either side of the band boundaries of zone 38 lie in the expected "
    "band), MGRS::EquatorialRadius / Flattening, GeoCoords::MGRSRepresentation / AltMGRSRepresentation (op gc_mgrs), tools/GeoConvert -m with -z -s -t -S -T -p -n (op gconv_m), and the "
    "assumption behind Check stated per point (op mgrs_cover: every position has an MGRS coordinate in its standard zone, with the band letter of its latitude). DOCUMENTED FACTS AS ORACLES "
    "INDEPENDENT OF THE TABLES: documented-lettering on MGRS::Forward (both overloads), on the south-west corner MGRS::Reverse returns, on GeoCoords and GeoConvert output; documented-range; "
    "documented-invalid (INVALID conventions of Forward and Reverse); precision-semantics (length 2+3+2·prec, the grid zone at prec −1 is the beginning of every longer string); "
    "documented-decode-grammar; decode-vs-reverse (whatever Reverse accepts, Decode splits into the pieces Reverse acts on); equivalent-labelling tightened to the whole continued range. "
    "NEW THEOREMS (Props/C05.lean, 75 in all). Gen: letter_tables_documented (utmcols = the three 8-letter runs of the 24-letter alphabet, utmrow its first 20, latband C…X, upsband ABYZ, "
    "upscols / upsrows the documented runs of the 18- and 24-letter alphabets, hemispheres, digits, alpha = both cases without I and O), scale_constants_documented (base 10, tile = 10^5, "
    "mult·tile = 10^maxprec, row period 20, even-zone shift 5). MGRS::Decode (model decode, executed against the implementation): decode_splits (an accepted non-INV reference is gridzone ++ block "
    "++ easting ++ northing with gridzone = 0–2 digits + one letter, block empty or two letters, two digit strings of equal length, empty when the block is), decode_complete (every byte string of "
    "that shape is accepted and split into exactly those parts), decode_forward_utm / decode_forward_ups (on what Forward writes: zone digits + band letter | column and row letters | the two digit "
    "groups). PREFIX AND RE-ENCODE LAWS at string level, UTM and UPS: prefix_law_utm / prefix_law_ups (precision p → p+1 keeps the head and extends each digit group by one digit), "
    "centre_same_square, reencode_utm (Forward of the centre of the square writes the same string except the band letter, which is that of the band passing Forward's own row test; same "
    "string for the same band), reencode_ups, centre_is_reverse (that centre is (2·x1+1)/(2·10^prec) tiles, what Reverse returns, up to the half micrometre lost at precision 11). CheckCoords on "
    "the binary64 model (restructured into clampTile / foldNorthing, validated against the implementation): checkCoords_accept_iff; north_row, folded_northing (y + 10^7 is a double in [10^6, 10^7], "
    "at most the predecessor of 10^7 if below it — from the IsRN rounding theory), south_row, checkCoords_labelling and equivalent_labelling: for every zone, easting, latitude argument and "
    "precision, Forward(zone, north, x, y, lat, prec) = Forward(zone, south, x, y ⊕ 10^7, lat, prec) for −9·10^6 ≤ y < 0 (same string or same exception; ⊕ = the binary64 sum; excluded only |y| so "
    "small that y / 10^5 underflows to zero), equivalent_labelling_auto for the overload without latitude under equal latitude estimates. FINDING of this round: F82 (Forward threw for a northern "
    "northing in [−9.3e-10, 0): the fold rounded to row 100; repaired d94b3ac, the model follows and equivalent_labelling holds down to the underflow threshold). NOT PROVED: that ⌊10^6·x⌋ of the centre "
    "Reverse returns is `centre` (one binary64 rounding: correspondence and the re-encode oracle); the geographic clause of block/band acceptance (harness oracle mgrs_block); band letter = band of "
    "the latitude (oracle, 22 nm); the lat-less overload's latitude estimate (model correspondence).")
_P["level_note"] += ("; harness/C04_doc.hpp: the MGRS lettering scheme (DMA TM8358.1 ch. 3 / NGA.STND.0037, the standard MGRS.hpp cites) written as arithmetic on the alphabet, and the ranges of MGRS.hpp "
                     "(trusted as a transcription of the documentation); tools/GeoConvert.cpp compiled from the current tree into the harness")
