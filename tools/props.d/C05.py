# C05: deepening round (coverage audit: MGRS::Decode / Check, GeoCoords MGRS glue, GeoConvert -m values, documented lettering / ranges)
import hashlib as _hl, os as _os

_verif = _os.path.dirname(_os.path.dirname(_os.path.dirname(_os.path.abspath(__file__))))
_repo = _os.environ.get("GV_REPO", "/repo")


def _tool_digest():
    # harness/C05.cpp compiles $GV_REPO/tools/GeoConvert.cpp into itself: the harness cache key must depend on its text
    try:
        return _hl.sha256(open(_os.path.join(_repo, "tools", "GeoConvert.cpp"), "rb").read()).hexdigest()[:16]
    except OSError:
        return "0"


_P = PROPS["C05"]
_P["harnesses"] = [dict(name="C05", procs_quick=2, procs_thorough=16,
                        extra=["-I" + _os.path.join(_verif, "harness", "C10_tools"), "-DGV_TOOLS_DIGEST=0x" + _tool_digest()])]
