# C14 — shared immutable objects are safe to use from many threads
_TSAN_ENV = {"TSAN_OPTIONS": "halt_on_error=1:exitcode=66:second_deadlock_stack=1:history_size=4"}

PROPS["C14"] = dict(
    harnesses=[
        # the correspondence proper: ThreadSanitizer build (clang++-14 -fsanitize=thread) of the current working tree; a
        # data-race report ends the process with exit code 66, which the orchestrator reports with the op that was running
        dict(name="C14", flavor="tsan", procs_quick=6, procs_thorough=16, env=_TSAN_ENV, timeout=2400),
        # the same ops at full speed without instrumentation (real hardware schedules): bit-for-bit comparison with the solo results
        dict(name="C14", flavor="plain", procs_quick=2, procs_thorough=8, timeout=2400),
    ],
    gens=["gen_effects"],
    rule=("one op per class of the quantifier (Geodesic, GeodesicExact, GeodesicLine(Exact); area computations on strongly eccentric ellipsoids f = 3/4, -2, "
          "9/10, where the DST size of GeodesicExact is N = 48, 48, 96 > 32: GenInverse/GenDirect/Inverse/Line+GenPosition with AREA on one shared GeodesicExact "
          "[suite GeodesicExact(eccentric)] and on one shared Geodesic(a, f, exact = true) [Geodesic(exact)], GenPosition with AREA on shared GeodesicLineExact "
          "/ exact GeodesicLine objects of one solver plus new AREA lines made from that solver "
          "[GeodesicLineExact(eccentric), GeodesicLine(exact)]; Rhumb series/exact, RhumbLine, TransverseMercator(Exact), "
          "PolarStereographic, LambertConformalConic, AlbersEqualArea, Geocentric, LocalCartesian, Ellipsoid, AuxLatitude/DAuxLatitude (all 36 conversion "
          "pairs, both constructors), EllipticFunction, NormalGravity, SphericalHarmonic/1/2 + CircularEngine (after RootTable), GravityModel/"
          "MagneticModel + circles from synthetic coefficient files, thread-safe Geoid (bilinear and cubic) from a synthetic PGM, the static "
          "UTMUPS/MGRS/DMS/Geohash/GARS/Georef/OSGB functions) and one for the singletons (WGS84()/UTM()/UPS()/Mercator()/…/OSGBTM()/OSGB north offset, "
          "always the first op of a process so that the first touch is concurrent): ONE shared instance, ellipsoid parameters / inputs / masks from the seed "
          "(WGS84, f = 0, 0.1, 1/150, 1/297, prolate; 3/4, -2, 9/10 in the eccentric suites), 4–8 threads (4–16 thorough) started behind a barrier, 2–8 iterations over every const API (rotated "
          "order, half of the threads start with the same call), concurrent phase BEFORE any solo use. non-trivial = an op whose calls returned values; "
          "distinct = distinct (class, threads, iterations, seed). Further suites: GeodesicProjections (AzimuthalEquidistant, CassiniSoldner, Gnomonic on shared series/exact "
          "solvers), PolygonArea (const Compute/TestPoint/TestEdge on shared PolygonArea/PolygonAreaExact/PolygonAreaRhumb, polygon and polyline), DST (5-smooth sizes), Accumulator "
          "(const operators). Op fu <class> (every class, 3 per class quick / 12 thorough): a FRESH shared instance per op, all threads leave a spin barrier and make the SAME first "
          "call at once, then the next call; results compared with a fresh equal object that was never shared. Op mtc <class> (every class): the mt schedule while two more threads "
          "construct and destroy objects of every class (solvers, projections, harmonic models from files, Geoid, DST, PolygonArea, GeoCoords, Intersect, NearestNeighbor; the harmonic "
          "square-root table is established with RootTable first, its growth being a documented exclusion). Stratum DST(generic)/outside-quantifier: a shared DST whose FFT length has a "
          "prime factor > 5 (open finding F95)"),
    tolerances={"concurrent vs solo results": "bit-for-bit (doubles, ints, strings, thrown-or-not)", "shared vs fresh equal object": "bit-for-bit",
                "object representation of trivially copyable shared objects before/after the concurrent const calls": "identical bytes",
                "data races": "none reported by ThreadSanitizer on the schedules that occurred"},
    level_text=("Theorems (all programs, all interleavings, all initial states): no_write_no_race — if no operation writes a location another thread reads or "
                "writes, every interleaving is race-free and every thread observes exactly its solo results; readonly_returns_solo_value — with empty write "
                "sets every call returns the value it returns alone from the initial state; static_init_once — a location written only by a C++11 "
                "function-local-static initialiser (modelled as an atomic once-step) is written at most once and every read sees the completed "
                "initialisation; prefilled_cache_never_written. Obligations on the effect table that is re-extracted from the current sources on every run "
                "(clang AST: mutable members, non-const statics, const_cast, and for every const/static member function the tracked locations it reads and "
                "writes, transitively): effects_disjoint (no const/static function of the quantifier's classes writes a shared location, except the "
                "documented exclusions and fill-on-miss caches with a prefill certificate), statics_const_or_excluded, auxlat_prefill_covers (both AuxLatitude "
                "constructors fill every coefficient block Convert/DConvert can demand), geoid_threadsafe_guarded, fft_sizes_smooth (every FFT size reachable "
                "from GeodesicExact is 5-smooth, so kissfft's generic butterfly, the only user of its mutable scratch buffer, is not reached), no_const_cast. "
                "Extraction-side obligations (the extraction covers src/*.cpp plus one unit that includes EVERY public header and instantiates the class templates, so header-only classes "
                "such as NearestNeighbor and SphericalHarmonic2 are in the table): mutable_text_scan_accounted / mutable_members_match_text_scan (a clang-independent text scan of all 91 files "
                "for the keyword mutable agrees with the AST walk), no_const_cast_text, local_statics_immutable (every function-local static is const, has no non-const pointee and is "
                "initialised where declared: constant or C++11-guarded), statics_written_only_by_excluded (over EVERY function body incl. constructors, non-const members and free functions, "
                "constructor calls followed), no_write_through_pointer_members + pointer_members_accounted (no assignment / non-const call / non-const hand-over through a pointer, reference, "
                "iterator or smart-pointer member inside const member functions; all such members point to const except DST::_fft), ctor_static_state_covered (every class whose constructors "
                "touch static state is constructed by the background threads of the mtc ops and writes only excluded state), sqrttable_readers_are_harmonic, exclusions_are_seen. "
                "The NearestNeighbor exclusion is now the six statistics members by name; Intersect, NearestNeighbor, PolygonAreaT, AzimuthalEquidistant, CassiniSoldner, Gnomonic are in the "
                "table obligation (effects_disjoint) with only their documented counters excluded. "
                "Correspondence: the table is validated against the running code with ThreadSanitizer and by bit-for-bit comparison of every concurrent "
                "result with the solo result of the very same call on the same object; the code that depends on the DST size (FFT length, radices, any work "
                "space) is exercised by area computations on shared exact solvers with f = 3/4, -2, 9/10 (N = 48, 48, 96), both GeodesicExact and "
                "Geodesic(a, f, exact = true), and their lines. Limits: Lean sees the extracted effect table, not the machine; the extractor is unverified; TSan observes "
                "only the schedules that occurred; the hardware memory model is not modelled. Partial."),
    level_note=("effect table, location list, AuxLatitude constructor fill loops and the GeodesicExact FFT size table regenerated from the sources each run "
                "(tools/effects.py, clang++-14 -ast-dump=json); hand-written interleaving model; C++11 thread-safe static initialisation is assumed as the language guarantees it"),
    technique="Lean 4 non-interference proof over an effect table extracted from the current sources + ThreadSanitizer / bit-for-bit concurrent-vs-solo correspondence",
    assumptions=["C++11 guarantees for function-local statics ([stmt.dcl]/4) and that const member functions of standard containers are data-race free ([res.on.data.races])",
                 "immutable (non-mutable, non-static) members cannot be written by const member functions in the absence of const_cast (checked: no const_cast in the library)",
                 "the extractor over-approximates writes through tracked locations; writes through pointer-like members inside const member functions are extracted syntactically (assignment, increment, non-const call, non-const hand-over) and otherwise covered by the TSan run only",
                 "excluded by the property text and therefore not alarms: NearestNeighbor::Search (const) updating the statistics _mc,_sc,_c1,_k,_cmin,_cmax; Intersect's _cnt0.._cnt4; growth of SphericalEngine's square-root table when a model of higher degree is constructed while another thread evaluates a harmonic sum (SphericalEngine.hpp prescribes RootTable(N) at start-up; the mtc suites do that)"],
    trusted_extra=["tools/effects.py (clang++-14 JSON AST walk; unverified) and ThreadSanitizer (clang 14 runtime) for the correspondence of C14"],
)
