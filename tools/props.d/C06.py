PROPS["C06"] = dict(
    harnesses=[dict(name="C06", procs_quick=2, procs_thorough=16)],
    gens=["gen_tmseries", "gen_math", "gen_auxseries"],
    rule=("ellipsoids f ∈ {WGS84, 1/150, 0.01, −0.01 (series only), 0.1 (exact only)}, k0 ∈ {1, 0.9996, 10}, lon0 ∈ {0, 7, −123.5, 179, −180, 540, 360·k + …}; "
          "|lon − lon0| ∈ {0, 1e-10, 3, 35, 60, 89, 90, 90 ± 1e-10, 179, 180} and uniform in [0,35], [35,90], [90,180]; lat ∈ {±0, ±1e-10, ±89.999999, "
          "±89.9999999999, ±90, uniform}; the exact form's branch point (lat ±0, lon − lon0 = 90(1−e) ± 0..4 ulp), the equatorial segment beyond it up to "
          "90(1+e), its neighbourhood (|lat| = 1e-12…0.1); central meridian; lon0 = 179 with lon = −179 − u; lon shifted by up to 4e7·360°; invalid "
          "latitudes; plane points for Reverse (axes, near side, far side, up to 3a·k0 for the exact form, 1e-9·a); first-quadrant kernel points "
          "for the series formula model; wrapper correspondence for series, exact and exact+extendp. non-trivial = finite result; distinct = "
          "distinct (op, leading argument bits)"),
    tolerances={
        "position (grid metres)": "4 × documented accuracy (series 5 nm, exact 8 nm; ground distance × local scale, × a/a_WGS84) + 16 ulp of the coordinates; "
                                  "series: + 2 × a·k0·Σ_j |n⁷-coefficient of α_j|·|n|⁷·cosh(2jη) (next-order term of the 6th-order series; the series is "
                                  "compared only where this term is ≤ 1 mm and |lon − lon0| < 90)",
        "convergence, scale": "position tolerance × |d ln M'/dw| / |M'| (sensitivity from the oracle; tan φ / a without it) + 64 ε",
        "round trips": "2 × position tolerance / k (ground)", "wrapper image": "4 ulp (x, y, k, lat), 64 ulp of 180° modulo 360 (γ, lon)",
        "series kernel vs formula model": "64 ε × (1 + |ξ| + |η| + Σ_j 2j|c_j|e^{2jη}); × 1/r near the pole image for lon, γ, k of Reverse",
        "conformality by finite differences": "1e-6 × (1 + |d ln M'/dw|²)/cos φ + differencing noise",
        "extendp": "round trip only, inside the documented extended domain, |x + iy| ≤ 1000·a·k0, with the resolution floor 64 ε σ² a k0 / k of the Thompson coordinate"},
    level_text=("Theorems: (1) for EVERY first-quadrant kernel the wrapper shared by TransverseMercator and TransverseMercatorExact (LatFix, AngDiff, "
                "latsign/lonsign, far side lon ↦ 180 − lon with ξ ↦ π − ξ resp. 2E − ξ, γ ↦ 180 − γ, sign restoration, AngNormalize) has the documented "
                "parities: lat ↦ −lat gives (x, −y, −γ, k) (except on the far-side equator, where the code's documented rule latsign = −1 applies), "
                "lon − lon0 ↦ −(lon − lon0) gives (−x, y, −γ, k), Reverse mirrors both, the kernel is only called on the first quadrant, and on "
                "first-quadrant input the wrapper is the identity up to scaling — proved over the exact binary64 model that the driver executes. (2) The "
                "complex Clenshaw recurrences of the series form return ζ + Σ c_j sin 2jζ and 1 + Σ 2j c_j cos 2jζ for every coefficient vector and every "
                "ζ = ξ + iη (over ℂ, for the same function `kr` the driver runs in binary64). (3) Table certificates, re-checked against the source on every "
                "run (decide +kernel over exact rationals): b1 = (1 + n²/4 + n⁴/64 + n⁶/256)/(1 + n); the maps ζ ↦ ζ + Σ α_j sin 2jζ and ζ ↦ ζ − Σ β_j sin 2jζ "
                "built from alpcoeff and betcoeff compose to the identity modulo n⁷ in both orders (truncated trigonometric-series CAS). Correspondence: the "
                "wrapper model predicts the implementation's answer on general inputs from its own first-quadrant kernel values (series, exact, exact + "
                "extendp); the series kernel model with the extracted tables agrees with the implementation to rounding. Oracles on the implementation: an "
                "independent evaluation of the Gauss–Krüger mapping (quadrature of M'(w) = a cos φ/√(1 − e² sin² φ) along a path in the complex isometric "
                "plane, φ(w) by complex Newton continuation, 80-bit arithmetic) for x, y, γ = −arg M', k = k0|M'|/(N cos φ); series vs exact; "
                "Reverse∘Forward and Forward∘Reverse; central meridian (x = 0, γ = 0, y = k0 × meridian arc by quadrature, k = k0); equator; poles; parities, "
                "periodicity, far-side reflection, lon0 shift; conformality by finite differences; extendp round trip. (4) Cross-table certificates "
                "alp_is_aux / bet_is_aux: alpcoeff and −betcoeff are, as rational series in n, the μ←χ and χ←μ tables of AuxLatitude.cpp (extracted "
                "independently), which the C15 obligations chi_ode, mu_beta_table, aux_revert tie to the defining relations of the conformal and "
                "rectifying latitudes. Partial: the nanometre error bounds of the floating-point code are not theorems (covered by the oracle); the "
                "exact form's zeta/sigma Newton inversions are kernels."),
    level_note=("b1coeff/alpcoeff/betcoeff and the series order regenerated from TransverseMercator.cpp each run; hand-written wrapper model over the exact F64 "
                "softfloat and polymorphic (RealLike) model of the series kernel; kernel values come from a copy of the implementation's object with unit "
                "scale constants; oracle in x87 long double"),
    technique="Lean 4 proofs (wrapper parities for an arbitrary kernel; Clenshaw over ℂ; table certificates by decide +kernel over a truncated trig-series CAS) + exact wrapper correspondence + quadrature oracle",
    assumptions=["the Gauss–Krüger projection is the analytic continuation of the meridian distance in the isometric plane (Krüger 1912; Karney 2011 §2) — used as the specification, not derived",
                 "extendp = true: only the round trip inside the documented extended domain is claimed (DESIGN §5)",
                 "AngDiff/AngNormalize/LatFix models of C16"],
)

# ---- deepening round G06 ------------------------------------------------------------------------------------------------
import hashlib as _hl06, os as _os06

_verif06 = _os06.path.dirname(_os06.path.dirname(_os06.path.dirname(_os06.path.abspath(__file__))))
_repo06 = _os06.environ.get("GV_REPO", "/repo")


def _tmproj_digest():
    # the harness compiles $GV_REPO/tools/TransverseMercatorProj.cpp into itself: make the harness cache key depend on its text
    h = _hl06.sha256()
    try:
        h.update(open(_os06.path.join(_repo06, "tools", "TransverseMercatorProj.cpp"), "rb").read())
    except OSError:
        h.update(b"missing:TransverseMercatorProj.cpp")
    return h.hexdigest()[:16]


PROPS["C06"]["harnesses"] = [dict(name="C06", procs_quick=2, procs_thorough=16,
                                  extra=["-I" + _os06.path.join(_verif06, "harness", "C06_tools"), "-DGV_TOOLS_DIGEST=0x" + _tmproj_digest()])]
PROPS["C06"]["gens"] = ["gen_tmseries", "gen_tmexact", "gen_math", "gen_auxseries"]

PROPS["C06"]["rule"] = (
    "ellipsoids f ∈ {WGS84, 1/150, 0.01, −0.01 and −1/298.26 (series only), 0 (sphere, series only), 1e-6 (e → 0), 0.1 (exact only)}, k0 ∈ {1, 0.9996, 10}, "
    "lon0 ∈ {0, 7, −123.5, 179, −180, 540, 360·k + …} and at/next to the date line {±180, ±179.9999999, 180 − ulp, 179.5} with the point on the other side; "
    "|lon − lon0| ∈ {0, 1e-10, 3, 35, 60, 89, 90, 90 ± 1e-10, 179, 180} and uniform in [0,35], [35,90], [90,180]; lat ∈ {±0, ±1e-10, ±89.999999, "
    "±89.9999999999, ±90, uniform}; the exact form's branch point (lat ±0, lon − lon0 = 90(1−e) ± 0..4 ulp), the equatorial segment beyond it up to "
    "90(1+e), its neighbourhood (|lat| = 1e-12…0.1); central meridian; lon0 = 179 with lon = −179 − u; lon shifted by up to 4e7·360°; invalid "
    "latitudes; plane points for Reverse (axes, near side, far side, up to 3a·k0 for the exact form, 1e-9·a); first-quadrant kernel points "
    "for the series formula model; wrapper correspondence for series, exact and exact+extendp. Public surface: 5-argument overloads, inspectors, Exact(), "
    "TransverseMercator(a, f, k0, exact, extendp) against TransverseMercatorExact(a, f, k0, extendp) for Forward and Reverse, constructor domain "
    "(a, f, k0 ∈ {valid, 0, negative, ∞, NaN, f ≥ 1}), the static UTM() instances of both classes, tools/TransverseMercatorProj (default, -s, -t, -r, -w, -e, -k, -l, -p 9; "
    "points that tell the three algorithms apart). Exact form against Model/TMExact.lean: constructor state; closed forms on the whole period rectangle "
    "incl. its corners and edges; zetainv0/sigmainv0 in each of their three cases and on both sides of every threshold, around the branch point down to 1e-14; "
    "zetainv/sigmainv on images of first-quadrant points and of the extended domain; Forward/Reverse between fold and unfold incl. pole, branch point ± 3 ulp, "
    "extendp with southern latitudes. Math::taupf/tauf for es of either sign, |tau| from 1e-300 to 1e17. non-trivial = finite result; distinct = distinct (op, leading argument bits)")
PROPS["C06"]["tolerances"].update({
    "exact form vs Model/TMExact": "4 × the running-error bound of the model's own binary64 evaluation on these inputs (FP/RunErr.lean), elliptic-function values supplied by the "
                                   "implementation (Lipschitz constant 1 in the argument); comparisons whose bound exceeds 1e-4 relative are skipped as ill-conditioned "
                                   "(branch point, pole of sigma); iteration counts may differ by a marginal test (|delw2/threshold| within a factor 4) — skipped, otherwise an alarm",
    "Newton inversions return a root": "Newton correction at the returned point ≤ 1e-9(1 + |u| + |v|), or residual of zeta/sigma itself ≤ 64 ε(1 + |target|) next to the branch point",
    "tool vs API": "half a unit of the last printed digit (-p 9: 1e-9 m, 1e-14 deg, 1e-15) + 4 ulp",
    "overloads, delegation, UTM() instances": "identical bits",
    "taupf/tauf": "model: 4 × running-error bound; tauf(taupf(tau)) = tau to 8 ε relative",
})
PROPS["C06"]["level_text"] = (
    "Theorems (44, Props/C06.lean). (1) Wrapper, for EVERY first-quadrant kernel, over the exact binary64 model the driver executes (both classes): lat ↦ −lat gives "
    "(x, −y, −γ, k) (except on the far-side equator, where the code's documented rule latsign = −1 applies), lon − lon0 ↦ −(lon − lon0) gives (−x, y, −γ, k), far side "
    "lon ↦ 180 − lon with ξ ↦ π − ξ resp. 2E − ξ and γ ↦ 180 − γ, Reverse mirrors these, the kernel is only called on the first quadrant, the wrapper is the identity up to "
    "scaling on first-quadrant input; with extendp = true there is no folding at all in Forward and in Reverse (tm_extendp_forward/reverse). (2) Series kernel as coded "
    "(TM.fwdKernel / TM.revKernel, the functions the driver runs in binary64, read at ℝ/ℂ): the complex Clenshaw pair returns F(ζ) = ζ + Σ c_j sin 2jζ and "
    "F'(ζ) = 1 + Σ 2j c_j cos 2jζ, and F' is the complex derivative of F (HasDerivAt); the Gauss–Schreiber step satisfies the spherical transverse Mercator relations "
    "(cos ξ' = cos λ/h, sin ξ' = τ'/h, sinh η' = sin λ/h, cosh η' = √(1+τ'²)/h, tan ξ' = τ'/cos λ, tanh η' = sin λ/√(1+τ'²)) and in closed form sin ζ' = tanh(ψ + iλ), "
    "cos ζ'·cosh(ψ + iλ) = 1 (ζ' = gd(w), ψ = asinh τ'), the coded γ', hypot(τ', cos λ) are arg and |·| of cosh w, and every differentiable branch with these two identities has dζ'/dw = 1/cosh w (HasDerivAt); Forward returns ξ + iη = F(ζ'), "
    "γ = γ' − arg F'(ζ'), k = k'·b1·|F'(ζ')|; Reverse returns ζ' = G(ζ), γ = arg G'(ζ) + γ', k = b1/|G'(ζ)|·k' (pole branch included); Reverse's series step applied to "
    "Forward's is exactly G∘F; η = 0 ⇔ λ = 0 where Σ 2j|α_j| cosh 2jη' < 1; on the central meridian η = 0, ξ = χ + Σ α_j sin 2jχ (χ = atan τ'), γ = 0, k = k'·b1·dξ/dχ; "
    "the coefficients _alp[l], _bet[l] the constructor computes are the values at n of the certified polynomials (tm_coeffs_eval, every table). (3) Table certificates, "
    "re-checked against the source on every run (decide +kernel over exact rationals): b1 = (1 + n²/4 + n⁴/64 + n⁶/256)/(1 + n); G∘F = F∘G = id modulo n⁷ as trigonometric "
    "series (all harmonics ≤ 6, Taylor substitution; harmonics above 6 are dropped under the certified shape 'harmonic j is O(n^j)'); alpcoeff and −betcoeff are the μ←χ "
    "and χ←μ tables of AuxLatitude.cpp, also as equal coefficient lists (alp_is_aux_list), so the central-meridian northing is a·b1·k0·(the rectifying-latitude series "
    "certified in C15) (tm_central_meridian_is_rectifying). (4) Exact form, for EVERY elliptic-function kernel (Model/TMExact.lean; EllipticFunction::am, E(sn,cn,dn), "
    "K, E, KE are abstract): the Newton loop of zetainv/sigmainv returns the Newton iterate after `steps` steps, steps ≤ numit_ (read from the header on every run), an exit "
    "through the convergence test means that some iterate w_m (m + 2 ≤ numit_) has |dw/dζ|²·((τ'(w_m) − τ')²/(1+τ'²) + (λ(w_m) − λ)²) < tol2_/max(ψ,1)² (resp. "
    "|dw/dσ|²·|σ(w_m) − σ|² < tol2_), all earlier ones had not, and the result is the iterate two steps later; an exit at the cap is silent and means all corrections but "
    "possibly the last were ≥ the tolerance; Forward takes the pole case exactly for lat = 90 and the branch-point case exactly at lat = 0 ∧ lon − lon0 = 90(1 − e), "
    "Reverse the branch-point case exactly at ξ = 0 ∧ η = K' − E' and the pole output exactly for (u, v) = (K, 0) (tmx_forward_cases, tmx_reverse_cases). With the Jacobi functions abstract (only sn² + cn² = 1, dn² + k² sn² = 1 assumed; complex values defined by the addition "
    "theorem, for which the same relations are proved to persist): zeta is Lee 54.17 (τ' = sinh(atanh(sn u dn v) − e atanh(e sn u/dn v)); λ = arg(cn u cn v + i dn u sn v) "
    "− e arg(dn u cn v + i e cn u sn v), these being Re/Im of atanh(sn w) − e atanh(e sn w)), dwdzeta = cn w dn w/(1 − e²) (54.21), dwdsigma = dn² w/(1 − e²) (55.9), and "
    "the rewritings used in sigma and Scale. Correspondence: the wrapper model predicts the implementation's answer on general inputs from its own first-quadrant kernel "
    "values (series, exact, exact + extendp); the series kernel model with the extracted tables agrees with the implementation to rounding; the exact-form model, run in "
    "running-error arithmetic on the elliptic-function values recorded from the implementation, reproduces the constructor state, the closed forms, the starting guesses "
    "(same case, same flag), every recorded Newton step, the iteration count, the library's zetainv/sigmainv result and Forward/Reverse between fold and unfold. Oracles on "
    "the implementation: an independent evaluation of the Gauss–Krüger mapping (quadrature of M'(w) along a path in the complex isometric plane, 80-bit) for x, y, γ, k; series "
    "vs exact; Reverse∘Forward and Forward∘Reverse; central meridian; equator; poles; parities, periodicity, far-side reflection, lon0 shift; conformality by finite "
    "differences; extendp round trip; Newton inversions return a root; Legendre's relation and the Jacobi relations on what EllipticFunction returns; overloads, "
    "inspectors, delegation of TransverseMercator(exact = true) incl. extendp and Reverse, constructor domain, UTM() instances, the TransverseMercatorProj tool against the API. "
    "Partial: the nanometre error bounds of the floating-point code and the size of the O(n⁷) remainder over ℝ are not theorems (covered by the oracle); that the Newton "
    "loops do leave through their convergence test, and everything about the elliptic functions themselves, is not proved (kernels); derivative consistency of zeta/sigma "
    "with their coded Jacobians is proved only algebraically (as the Lee formulas), not as derivatives. Finding F90 (exact form, e² ≤ 1e-4: k'² of the second EllipticFunction object recomputed with cancellation) is "
    "repaired in /repo (5c8be26) and guarded by the oracle complementary-modulus of op tmxc; open finding F91 (exact Reverse, e² ≥ 0.15: sigmainv wanders / hits "
    "the iteration cap) has a decidable class, a witness in the corpus and a mitigating candidate patch (design-probes/G06).")
PROPS["C06"]["level_note"] = (
    "b1coeff/alpcoeff/betcoeff, the series order and TransverseMercatorExact::numit_ regenerated from the sources each run; hand-written wrapper model over the exact F64 "
    "softfloat; polymorphic (RealLike) models of the series kernel and of the whole exact form (zeta, dwdzeta, sigma, dwdsigma, zetainv0, sigmainv0, Newton loop, Scale, "
    "Forward/Reverse kernels) — executed in binary64 / running-error arithmetic by the driver, read at ℝ by the theorems; kernel values come from the implementation "
    "(unit-scale copy of the object; EllipticFunction calls recorded along a replica of the loop that calls the library's own private pieces); oracle in x87 long double; "
    "tools/TransverseMercatorProj.cpp of the current tree compiled into the harness")
PROPS["C06"]["technique"] = ("Lean 4 proofs (wrapper parities for an arbitrary kernel; series kernel over ℝ/ℂ incl. complex derivative; Newton-loop structure and Lee's closed forms "
                             "for arbitrary elliptic kernels; table certificates by decide +kernel over a truncated trig-series CAS) + exact wrapper correspondence + running-error "
                             "correspondence of the exact form + quadrature oracle")
PROPS["C06"]["assumptions"] = [
    "the Gauss–Krüger projection is the analytic continuation of the meridian distance in the isometric plane (Krüger 1912; Karney 2011 §2) — used as the specification, not derived",
    "Jacobi elliptic functions are not in Mathlib: sn, cn, dn enter the exact-form theorems as arbitrary reals with sn² + cn² = 1, dn² + k² sn² = 1, complex arguments by the addition theorem (A+S 16.21); "
    "the harness checks the two relations and Legendre's relation on what EllipticFunction returns",
    "Math::taupf is the tangent of the conformal latitude (C15/C16); tm_central_meridian and the Gauss–Schreiber theorems are stated in terms of τ' = taupf(tan φ)",
    "extendp = true: only the round trip inside the documented extended domain is claimed, not towards its south pole where the image leaves the range of binary64 (DESIGN §5, P16)",
    "AngDiff/AngNormalize/LatFix models of C16",
]
