PROPS["C06"] = dict(
    harnesses=[dict(name="C06", procs_quick=2, procs_thorough=16)],
    gens=["gen_tmseries", "gen_math"],
    rule="tbd", tolerances={}, level_text="tbd", level_note="tbd", technique="tbd", assumptions=[],
)
