PROPS["C06"] = dict(
    harnesses=[dict(name="C06", procs_quick=2, procs_thorough=16)],
    gens=["gen_tmseries", "gen_math", "gen_auxseries"],
    rule=("ellipsoids f ∈ {WGS84, 1/150, 0.01, −0.01 (series only), 0.1 (exact only)}, k0 ∈ {1, 0.9996, 10}, lon0 ∈ {0, 7, −123.5, 179, −180, 540, 360·k + …}; "
          "|lon − lon0| ∈ {0, 1e-10, 3, 35, 60, 89, 90, 90 ± 1e-10, 179, 180} and uniform in [0,35], [35,90], [90,180]; lat ∈ {±0, ±1e-10, ±89.999999, "
          "±89.9999999999, ±90, uniform}; the exact form's branch point (lat ±0, lon − lon0 = 90(1−e) ± 0..4 ulp), the equatorial segment beyond it up to "
          "90(1+e), its neighbourhood (|lat| = 1e-12…0.1); central meridian; lon0 = 179 with lon = −179 − u; lon shifted by up to 4e7·360°; invalid "
          "latitudes; plane points for Reverse (axes, near side, far side, up to 3a·k0 for the exact form, 1e-9·a); first-quadrant kernel points "
          "for the series formula model; wrapper correspondence for series, exact and exact+extendp. non-trivial = finite result; distinct = "
          "distinct (op, leading argument bits)"),
    tolerances={
        "position (grid metres)": "4 × documented accuracy (series 5 nm, exact 8 nm; ground distance × local scale, × a/a_WGS84) + 16 ulp of the coordinates; "
                                  "series: + 2 × a·k0·Σ_j |n⁷-coefficient of α_j|·|n|⁷·cosh(2jη) (next-order term of the 6th-order series; the series is "
                                  "compared only where this term is ≤ 1 mm and |lon − lon0| < 90)",
        "convergence, scale": "position tolerance × |d ln M'/dw| / |M'| (sensitivity from the oracle; tan φ / a without it) + 64 ε",
        "round trips": "2 × position tolerance / k (ground)", "wrapper image": "4 ulp (x, y, k, lat), 64 ulp of 180° modulo 360 (γ, lon)",
        "series kernel vs formula model": "64 ε × (1 + |ξ| + |η| + Σ_j 2j|c_j|e^{2jη}); × 1/r near the pole image for lon, γ, k of Reverse",
        "conformality by finite differences": "1e-6 × (1 + |d ln M'/dw|²)/cos φ + differencing noise",
        "extendp": "round trip only, inside the documented extended domain, |x + iy| ≤ 1000·a·k0, with the resolution floor 64 ε σ² a k0 / k of the Thompson coordinate"},
    level_text=("Theorems: (1) for EVERY first-quadrant kernel the wrapper shared by TransverseMercator and TransverseMercatorExact (LatFix, AngDiff, "
                "latsign/lonsign, far side lon ↦ 180 − lon with ξ ↦ π − ξ resp. 2E − ξ, γ ↦ 180 − γ, sign restoration, AngNormalize) has the documented "
                "parities: lat ↦ −lat gives (x, −y, −γ, k) (except on the far-side equator, where the code's documented rule latsign = −1 applies), "
                "lon − lon0 ↦ −(lon − lon0) gives (−x, y, −γ, k), Reverse mirrors both, the kernel is only called on the first quadrant, and on "
                "first-quadrant input the wrapper is the identity up to scaling — proved over the exact binary64 model that the driver executes. (2) The "
                "complex Clenshaw recurrences of the series form return ζ + Σ c_j sin 2jζ and 1 + Σ 2j c_j cos 2jζ for every coefficient vector and every "
                "ζ = ξ + iη (over ℂ, for the same function `kr` the driver runs in binary64). (3) Table certificates, re-checked against the source on every "
                "run (decide +kernel over exact rationals): b1 = (1 + n²/4 + n⁴/64 + n⁶/256)/(1 + n); the maps ζ ↦ ζ + Σ α_j sin 2jζ and ζ ↦ ζ − Σ β_j sin 2jζ "
                "built from alpcoeff and betcoeff compose to the identity modulo n⁷ in both orders (truncated trigonometric-series CAS). Correspondence: the "
                "wrapper model predicts the implementation's answer on general inputs from its own first-quadrant kernel values (series, exact, exact + "
                "extendp); the series kernel model with the extracted tables agrees with the implementation to rounding. Oracles on the implementation: an "
                "independent evaluation of the Gauss–Krüger mapping (quadrature of M'(w) = a cos φ/√(1 − e² sin² φ) along a path in the complex isometric "
                "plane, φ(w) by complex Newton continuation, 80-bit arithmetic) for x, y, γ = −arg M', k = k0|M'|/(N cos φ); series vs exact; "
                "Reverse∘Forward and Forward∘Reverse; central meridian (x = 0, γ = 0, y = k0 × meridian arc by quadrature, k = k0); equator; poles; parities, "
                "periodicity, far-side reflection, lon0 shift; conformality by finite differences; extendp round trip. (4) Cross-table certificates "
                "alp_is_aux / bet_is_aux: alpcoeff and −betcoeff are, as rational series in n, the μ←χ and χ←μ tables of AuxLatitude.cpp (extracted "
                "independently), which the C15 obligations chi_ode, mu_beta_table, aux_revert tie to the defining relations of the conformal and "
                "rectifying latitudes. Partial: the nanometre error bounds of the floating-point code are not theorems (covered by the oracle); the "
                "exact form's zeta/sigma Newton inversions are kernels."),
    level_note=("b1coeff/alpcoeff/betcoeff and the series order regenerated from TransverseMercator.cpp each run; hand-written wrapper model over the exact F64 "
                "softfloat and polymorphic (RealLike) model of the series kernel; kernel values come from a copy of the implementation's object with unit "
                "scale constants; oracle in x87 long double"),
    technique="Lean 4 proofs (wrapper parities for an arbitrary kernel; Clenshaw over ℂ; table certificates by decide +kernel over a truncated trig-series CAS) + exact wrapper correspondence + quadrature oracle",
    assumptions=["the Gauss–Krüger projection is the analytic continuation of the meridian distance in the isometric plane (Krüger 1912; Karney 2011 §2) — used as the specification, not derived",
                 "extendp = true: only the round trip inside the documented extended domain is claimed (DESIGN §5)",
                 "AngDiff/AngNormalize/LatFix models of C16"],
)

# ---- deepening round G06 ------------------------------------------------------------------------------------------------
import hashlib as _hl06, os as _os06

_verif06 = _os06.path.dirname(_os06.path.dirname(_os06.path.dirname(_os06.path.abspath(__file__))))
_repo06 = _os06.environ.get("GV_REPO", "/repo")


def _tmproj_digest():
    # the harness compiles $GV_REPO/tools/TransverseMercatorProj.cpp into itself: make the harness cache key depend on its text
    h = _hl06.sha256()
    try:
        h.update(open(_os06.path.join(_repo06, "tools", "TransverseMercatorProj.cpp"), "rb").read())
    except OSError:
        h.update(b"missing:TransverseMercatorProj.cpp")
    return h.hexdigest()[:16]


PROPS["C06"]["harnesses"] = [dict(name="C06", procs_quick=2, procs_thorough=16,
                                  extra=["-I" + _os06.path.join(_verif06, "harness", "C06_tools"), "-DGV_TOOLS_DIGEST=0x" + _tmproj_digest()])]
PROPS["C06"]["gens"] = ["gen_tmseries", "gen_tmexact", "gen_math", "gen_auxseries"]
