# C01: the series solver itself is modelled in Lean (Model/GeodLine.lean) — additions to the registry entry of tools/props.py
_P = PROPS["C01"]
_P["rule"] += ("; every case with f < 1 is also run through the model correspondence of the series solver (geodconst: constructor constants "
               "and the n-polynomials _aA3x/_cC3x/_cC4x; lineinit: all private members of GeodesicLine after LineInit incl. the five coefficient "
               "arrays; genpos: the nine outputs of GenPosition from the implementation's own members, arc and distance mode, with and without "
               "LONG_UNROLL), strata model-{series-range,large-f}-{arc,dist}[-unroll]")
_P["tolerances"]["model correspondence (geodconst, lineinit, genpos)"] = (
    "4 × the first-order running error bound of the model's own binary64 evaluation on the same inputs, computed by executing the model in "
    "FP/RunErr.lean (u = 2^-53 per + − × ÷ √, 1 ulp per libm call, 2 ulp for the model's hypot, first-order propagation, +2π where an atan2 "
    "argument is within its error of the branch cut): condition-aware by construction, nothing fitted; pass-through values must be equal; azi2 and the "
    "normalised lon2 modulo 360° (AngNormalize evaluated exactly with the C16 model). On the unchanged tree all values except those downstream of hypot "
    "are bit-identical")
_P["level_text"] += (
    " The series solver itself is a Lean model (Model/GeodLine.lean, polymorphic over the number type): the Horner evaluation of A1m1f, C1f, C1pf, "
    "A2m1f, C2f, A3coeff/A3f, C3coeff/C3f, C4coeff/C4f from the re-extracted tables, the Geodesic constructor constants, GeodesicLine::LineInit and "
    "GeodesicLine::GenPosition (arc and distance mode, the |f| > 0.01 Newton correction, LONG_UNROLL, m12/M12/M21/S12), same operations in the same "
    "order; sincosd values are inputs, atan2d is modelled. It is executed in binary64 against the private members and outputs of the implementation "
    "on every generated case. Theorems about the same definitions over ℝ: the Horner evaluations of A1m1f/A2m1f are the truncated series certified by "
    "a1_table/a2_table; LineInit returns unit vectors (ssig1, csig1) (always) and (salp0, calp0) (off the poles); GenPosition keeps (ssig2, csig2) and "
    "(sbet2, cbet2) on the unit circle and the returned azimuth and reduced latitude satisfy Clairaut's relation sin α2 cos β2 = sin α0; in arc mode "
    "s12 = b(I1(σ1+σ12) − I1(σ1)) with I1(σ) = A1(σ + Σ C1_l sin 2lσ), and one more circuit adds 2πbA1 and leaves latitude and azimuth unchanged. "
    "Not proved: that distance mode inverts arc mode (reverted series + Newton step: correspondence and oracle only), the longitude and area formulas "
    "(correspondence and oracle only).")
_P["technique"] = "Lean 4 table certificates, exact-real theorems about an executable model of the series solver, model correspondence with a computed running-error tolerance, quadrature-oracle correspondence"

# the harness compiles $GV_REPO/tools/GeodSolve.cpp into itself (harness/C01_tool.hpp): include path of the usage stub, and a cache key
# that depends on the tool's text (the generic key covers only the library and the harness sources)
import hashlib as _hl, os as _os
def _tools_digest():
    h = _hl.sha256()
    p = _os.path.join(_os.environ.get("GV_REPO", "/repo"), "tools", "GeodSolve.cpp")
    try:
        h.update(open(p, "rb").read())
    except OSError:
        h.update(b"missing")
    return h.hexdigest()[:16]
_verif = _os.path.dirname(_os.path.dirname(_os.path.dirname(_os.path.abspath(__file__))))
_P["harnesses"] = [dict(name="C01", procs_quick=4, procs_thorough=16,
                        extra=["-I" + _os.path.join(_verif, "harness", "C01_tools"), "-DGV_TOOLS_DIGEST=0x" + _tools_digest()])]
