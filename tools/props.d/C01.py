# C01: the series solver itself is modelled in Lean (Model/GeodLine.lean) — additions to the registry entry of tools/props.py
_P = PROPS["C01"]
_P["rule"] += ("; every case with f < 1 is also run through the model correspondence of the series solver (geodconst: constructor constants "
               "and the n-polynomials _aA3x/_cC3x/_cC4x; lineinit: all private members of GeodesicLine after LineInit incl. the five coefficient "
               "arrays; genpos: the nine outputs of GenPosition from the implementation's own members, arc and distance mode, with and without "
               "LONG_UNROLL), strata model-{series-range,large-f}-{arc,dist}[-unroll]")
_P["tolerances"]["model correspondence (geodconst, lineinit, genpos)"] = (
    "4 × the first-order running error bound of the model's own binary64 evaluation on the same inputs, computed by executing the model in "
    "FP/RunErr.lean (u = 2^-53 per + − × ÷ √, 1 ulp per libm call, 2 ulp for the model's hypot, first-order propagation, +2π where an atan2 "
    "argument is within its error of the branch cut): condition-aware by construction, nothing fitted; pass-through values must be equal; azi2 and the "
    "normalised lon2 modulo 360° (AngNormalize evaluated exactly with the C16 model). On the unchanged tree all values except those downstream of hypot "
    "are bit-identical")
_P["level_text"] += (
    " The series solver itself is a Lean model (Model/GeodLine.lean, polymorphic over the number type): the Horner evaluation of A1m1f, C1f, C1pf, "
    "A2m1f, C2f, A3coeff/A3f, C3coeff/C3f, C4coeff/C4f from the re-extracted tables, the Geodesic constructor constants, GeodesicLine::LineInit and "
    "GeodesicLine::GenPosition (arc and distance mode, the |f| > 0.01 Newton correction, LONG_UNROLL, m12/M12/M21/S12), same operations in the same "
    "order; sincosd values are inputs, atan2d is modelled. It is executed in binary64 against the private members and outputs of the implementation "
    "on every generated case. Theorems about the same definitions over ℝ: the Horner evaluations of A1m1f/A2m1f are the truncated series certified by "
    "a1_table/a2_table; LineInit returns unit vectors (ssig1, csig1) (always) and (salp0, calp0) (off the poles); GenPosition keeps (ssig2, csig2) and "
    "(sbet2, cbet2) on the unit circle and the returned azimuth and reduced latitude satisfy Clairaut's relation sin α2 cos β2 = sin α0; in arc mode "
    "s12 = b(I1(σ1+σ12) − I1(σ1)) with I1(σ) = A1(σ + Σ C1_l sin 2lσ), and one more circuit adds 2πbA1 and leaves latitude and azimuth unchanged. "
    "Not proved: that distance mode inverts arc mode (reverted series + Newton step: correspondence and oracle only), the longitude and area formulas "
    "(correspondence and oracle only).")
_P["technique"] = "Lean 4 table certificates, exact-real theorems about an executable model of the series solver, model correspondence with a computed running-error tolerance, quadrature-oracle correspondence"

# ---- deepening round G01: every documented route, the whole documented flattening range, the exact line as a Lean model --------------
_P["rule"] = (
    "f = WGS84 (1/3 of the cases); series range {0, ±1e-3, ±1/150, ±0.01, ±1/64, ±0.02}; series with documented degradation {±0.05, ±0.1, ±0.2}; "
    "exact-only {0.5, −1, 0.75, −3}; strongly eccentric b/a ∈ {1/8, 1/16, 0.05, 0.04, 1/32, 0.02, 1/64, 0.01, 8, 16, 20, 25, 32, 50, 64, 100} "
    "(the documented range of GeodesicExact is b/a ∈ [0.01, 100]); lat1 ∈ {±90, ±(90−1e-10), ±0, ±1e-10, 45, uniform}; azi1 ∈ {0, ±90, ±180, "
    "±1e-10, 180−1e-10, 90±1e-10, uniform}, shifted by 360k (|k| ≤ 3) in 1/8 of the cases; equatorial lines (lat1 = ±0, azi1 = ±90); lon1 uniform "
    "in [−180, 180] (1/2), in [−1080, 1080] (1/3) or from {±180, 0, 359, −540, 720, 270, 181, −300.125, 3600.5, 359.75, −725.25}; lengths as "
    "distance and as arc: 0, ±1e-9, special values, up to ±10 circuits, within half a circuit, and σ12 at k·180° + {0, ±1e-9, ±1e-6, 1e-3} (in "
    "distance mode: the distance that GeodesicExact returns for such an arc, and its neighbours). Every case is solved by Geodesic, "
    "GeodesicExact and Geodesic(a,f,true) through GenDirect(ALL) and (ALL|LONG_UNROLL), Line / the line constructor / GenDirectLine / "
    "DirectLine resp. ArcDirectLine + GenPosition with and without LONG_UNROLL, the third point of GenDirectLine (GenDistance, Arc, Distance), GenSetDistance on an existing line with either member of the pair, the Latitude/Longitude/Azimuth getters of every line form (the longitude as given), "
    "the other member of the distance/arc pair (Direct on the s12 returned by ArcDirect and vice versa), InverseLine through the end point "
    "(b/a ∈ [1/4, 4], |a12| ≤ 175°); every fourth case in addition through all 6 Direct / 7 ArcDirect overloads, the 6 Position / 7 ArcPosition "
    "overloads of Line and DirectLine/ArcDirectLine, GenDirect and GenPosition with each single-output mask, and lines constructed with a single "
    "capability; every fourth case through tools/GeodSolve run in-process (−f −p 10, with −a, −E, −u, −L, −D). Separate streams: "
    "E(Einv(x)) and deltaEinv on k² ∈ {0, 0.9999, −9999, 0.99, −99, 0.5, −1, ±1e-3, 0.999999, −1e6} ∪ −10^[−3, 4.2] ∪ 1 − 10^[−4.2, 0], x at "
    "multiples of E(k) ± tiny, within a quarter period and up to 40 E(k); the model correspondences (series: geodconst, lineinit, genpos for "
    "|f| ≤ 0.2; exact line: xgeodconst, xlineinit, xgenpos for every f, arc and distance mode, with and without LONG_UNROLL). "
    "non-trivial = finite result compared with the oracle; distinct = distinct (op, leading argument bits)")
_P["tolerances"] = {
    "series vs oracle": "4 × {15 nm (|f| ≤ 1/250), 26 nm (≤ 1/100), 31 nm (≤ 1/50), 10 µm (≤ 0.05), 1.5 mm (≤ 0.1), 300 mm (≤ 0.2)} (Geodesic.hpp / GeodesicLine.cpp tables) × size × max(1, |σ12|/180°)",
    "exact vs oracle": "4 × the table of GeodesicExact.hpp (b/a: 1/2 36 nm (40 nm used), 1/4 69, 1/8 115, 1/16 210, 1/32 269, 1/64 345, 1/128 387; 2 25 (40 used), 4 96, 8 318, 16 985, 32 2352, 64 6008, 128 19024 nm; a b/a between two rows takes the more eccentric row; × 2 beyond b/a ∈ [1/2, 2] because the rows are 'approximate maxima') × size × max(1, |σ12|/180°)",
    "size": "max(a / a_WGS84, quarter meridian / 10000 km) — the series table is written for a = a_WGS84, the exact table for a quarter meridian of 10000 km",
    "how errors are measured": "position: 3-D chord between the points of the ellipsoid; azimuth: angle between the 3-D unit tangents × a ≤ (tol + 4e-16 a) × max(b/a, a/b); s12 for a given arc: metres; a12 for a given distance: |Δa12| × (b·dn(σ2) metres per radian of arc at the end point); unrolled longitude: |Δ(lon2 − lon1)| × a cos β2 ≤ tol + 1e-15 |lon1| a (not judged where the start or end point is within 1e-5° of a pole; modulo 360° on meridians)",
    "routes vs GenDirect(ALL) of the same solver": "the same tolerance (on the unchanged tree the routes are bit-identical); distance/arc pair: 2 × tol; InverseLine: 3 × tol(180°)",
    "delegation (exact = true) and GeodesicLine(Exact)::GenPosition vs GenDirect": "bit-for-bit",
    "ranges": "exact: decided in Lean for GenDirect of the series and exact solver, by comparison in the harness for every other route",
    "E(Einv(x)) = x, Einv(x) in the period of πx/(2E)": "|E(Einv x) − x| ≤ 64 ε (|x| + E(k)) (decided in Lean); the integral of √(1 − k² sin²) up to Einv(x) by graded Gauss–Legendre panels within the same bound; deltaEinv(sin τ, cos τ) = σ − τ within 64 ε (1 + |σ| + |deltaE|) max(1, E0/dn)",
    "GeodSolve": "every printed field within half a unit of its last printed digit (+ 2 ulp) of the value the library call returns",
    "model correspondence (geodconst, lineinit, genpos; xgeodconst, xlineinit, xgenpos)": _P["tolerances"]["model correspondence (geodconst, lineinit, genpos)"] + "; exact line: the EllipticFunction kernels are evaluated by the harness on an object it constructs itself with the documented parameters (−k², −e′², 1 + k², 1 + e′²) at the documented arguments, and enter the running-error evaluation with the bound 2·Lip·(argument errors) + u|v|, Lip a bound of the kernel's derivative along the auxiliary sphere (deltaE: 1 + dn/E0, deltaD: 1 + 1/(dn D0), deltaH: 1 + max(1, f1²)/(dn H0), deltaEinv: 1 + E0/min(1, √kp2)); the model's arguments are compared with the harness's; S12 is compared when the DST has at most 400 coefficients",
}
_P["level_text"] += (
    " Deepening: (i) the elliptic-integral line is a Lean model too (Model/GeodLineExact.lean, kernel-parametric and polymorphic): the GeodesicExact "
    "constructor constants, GeodesicLineExact::LineInit and GenPosition (arc and distance mode through deltaEinv, the degenerate end point, unrolled and "
    "reduced longitude, m12/M12/M21, DST::integral, both alp12 formulas) around abstract kernels for the EllipticFunction member calls (E(), D(), H(), "
    "deltaE, deltaD, deltaH, deltaEinv) and the DST coefficients; Delta and atan2d are modelled. It is executed in the running-error arithmetic against "
    "the private members and outputs of the implementation on every generated case, for every flattening incl. b/a = 0.01 and 100. Theorems for every "
    "kernel (ℝ): xlineinit_sig1_norm, xlineinit_alp0_norm, xlineinit_tau1 ((stau1, ctau1) = (sin, cos)(σ1 + E1)), xgenpos_sig2_norm, xclairaut, "
    "xgenpos_bet2_norm, xgenpos_arc_s12 (s12 = b E0 (τ(σ1 + σ12) − τ(σ1)), τ(σ) = σ + deltaE(σ)), xgenpos_arc_circuit (a12 + 360: same latitude and "
    "azimuth, s12 grows by 2π b E0, the unrolled longitude by exactly 360·(E − (e²/f1) sin α0 H0), the reduced χ12 is unchanged), "
    "xgenpos_zero_arc, xgenpos_lon1_translation; and under the explicitly stated kernel contract EinvInvertsE (deltaEinv(sin τ(σ), cos τ(σ)) = σ − τ(σ)): "
    "xgenpos_distance_inverts_arc — GenPosition(distance = the s12 that arc mode returns) returns the identical record (same σ12 with its whole "
    "number of circuits, latitude, longitudes, azimuth, m12, M12, M21, S12). The contract itself is checked on the implementation (ops einv, deltaeinv). "
    "(ii) LONG_UNROLL of the series line: genpos_lon1_translation (lon1 enters only as the term added at the end: lon2 = lon1 + λ12 with the "
    "un-normalised lon1; every other output is independent of it), genpos_arc_circuit_lon (a12 + 360 moves the unrolled lon2 by exactly "
    "360·(E + A3c), the reduced difference by 360·A3c), genpos_zero_arc, and genpos_unroll_within_half_turn / xgenpos_unroll_within_half_turn: the "
    "unrolled spherical longitude as coded differs from E·σ12 by less than π for every σ12 of any number of circuits (the two wrapped atan2 "
    "differences cancel each other's jumps: ω12 = E(σ12 + δ(σ2) − δ(σ1)) with |δ| < π/2, lemma atan2_scale_bound over Complex.arg) — so the "
    "unrolled value is the continuous branch and lon2 − lon1 counts the number and sense of circuits; (iii) atan2d_range, direct_ranges, xdirect_ranges: "
    "the modelled Math::atan2d returns an angle in [−180, 180] (in [−90, 90] for a non-negative second argument), hence azi2 ∈ [−180, 180] and "
    "lat2 ∈ [−90, 90] for both line models (ℝ; the normalisation of the reduced lon2 is C16's AngNormalize theorem). Not proved: the kernel contract for the real "
    "EllipticFunction (closure oracle only); the ellipsoidal correction term of the longitude (I3 / H: series certificates resp. kernel); accuracy figures.")
_P["level_note"] += "; oracle integrals on Gauss–Legendre panels graded towards the branch points of √(1 + k² sin²σ) (validated against the uniformly refined oracle to 1e-17 relative)"
_P["technique"] = ("Lean 4 table certificates, exact-real theorems about executable models of the series solver and of the elliptic-integral line "
                   "(kernel-parametric), model correspondence with a computed running-error tolerance, quadrature-oracle correspondence over every documented route")
_P["assumptions"] = _P["assumptions"] + [
    "the EllipticFunction kernels are taken from the implementation (C15 checks them against their defining integrals); the closure E(Einv(x)) = x and the root selection are checked here",
    "the first-order Lipschitz bounds attached to kernel values in the running-error evaluation are estimates, not theorems",
]

# the harness compiles $GV_REPO/tools/GeodSolve.cpp into itself (harness/C01_tool.hpp): include path of the usage stub, and a cache key
# that depends on the tool's text (the generic key covers only the library and the harness sources)
import hashlib as _hl, os as _os
def _tools_digest():
    h = _hl.sha256()
    p = _os.path.join(_os.environ.get("GV_REPO", "/repo"), "tools", "GeodSolve.cpp")
    try:
        h.update(open(p, "rb").read())
    except OSError:
        h.update(b"missing")
    return h.hexdigest()[:16]
_verif = _os.path.dirname(_os.path.dirname(_os.path.dirname(_os.path.abspath(__file__))))
_P["harnesses"] = [dict(name="C01", procs_quick=4, procs_thorough=16,
                        extra=["-I" + _os.path.join(_verif, "harness", "C01_tools"), "-DGV_TOOLS_DIGEST=0x" + _tools_digest()])]
