import hashlib as _hl19, os as _os19

_verif19 = _os19.path.dirname(_os19.path.dirname(_os19.path.dirname(_os19.path.abspath(__file__))))
_repo19 = _os19.environ.get("GV_REPO", "/repo")


def _tools_digest19():
    # the harness compiles $GV_REPO/tools/Gravity.cpp and MagneticField.cpp into itself: make the harness cache key depend on their text
    h = _hl19.sha256()
    for f in ("Gravity.cpp", "MagneticField.cpp"):
        try:
            h.update(open(_os19.path.join(_repo19, "tools", f), "rb").read())
        except OSError:
            h.update(b"missing")
    return h.hexdigest()[:16]


PROPS["C19"] = dict(
    harnesses=[dict(name="C19", procs_quick=2, procs_thorough=16,
                    extra=["-I" + _os19.path.join(_verif19, "harness", "C19_tools"), "-DGV_TOOLS_DIGEST=0x" + _tools_digest19()])],
    gens=[],
    rule=("coefficient storage: every (N, nmx, mmx, stored order) with N <= 5 (8 thorough) incl. invalid dimensions, every (n, m) of each, plus random "
          "layouts to degree 60; harmonic sums: L = 1, 2, 3 coefficient sets, FULL and SCHMIDT, first set truncated below its layout, secondary sets "
          "stored with a larger layout degree than used (nmx_l < N_l), empty secondary sets, multipliers tau in {1, -1, 0.5, 2, 0, random}; coefficient "
          "vectors: uniform, wide dynamic range 10^[-8, 8] with both signs, geophysical decay, sparse, a single non-zero coefficient; points: r in [a, 1.2a], "
          "r < a, r up to 1e6 a, on the polar axis, 1e-14..1e-3 degrees from it, equatorial plane, principal meridians; degree <= 12 with the Lean models (value, gradient, circle with and without gradient), <= 40 "
          "quick, <= 360 thorough (oracle only); synthetic magnetic model files (1-4 epochs of different sizes, with/without constant block, both "
          "normalisations, times inside / before / after / exactly on / one ulp before epoch boundaries / 1000 years away, truncated loading) and gravity "
          "model files (ModelMass = or != ReferenceMass, several flattenings, height offset, correction multiplier, with/without geoid-correction block, "
          "truncated loading, h = 0 and h != 0, poles), every member of GravityCircle/MagneticCircle against the model; NormalGravity for WGS84, GRS80, "
          "sphere, prolate, random (a, GM, omega, f) to f = 0.6, omega = 0, |f| down to 1e-7; malformed coefficient-file headers (huge / negative / "
          "inconsistent degree). non-trivial = finite value compared with an oracle; distinct = distinct (op, leading argument bits)"),
    tolerances={"sum, gradient, circle vs defining double sum (long double)": "1e-12 x max(1, (N+1)/32) x sum|terms| (terms of the value, resp. of the three spherical gradient components), plus 8 ulp of the point (|grad V| r eps: r, cos theta, sin theta are rounded), the documented pole offset eps() = 2^-78 times the derivative bound and the underflow floor 2^-450 of the internally scaled sums",
                "gradient vs central differences of the defining sum": "truncation bound 1e-12 (N+3)^2 relative + 1e-9",
                "circle vs point": "min(1e-12 x max(1,(N+1)/32), (32 + 2(M+1)^2) x 1.2e-16) x sum|terms|",
                "coefficient storage / accessors vs Lean model": "exact",
                "Value<false, norm, L>, Value<true, norm, L> (value + Cartesian gradient), Circle<gradp> + CircularEngine::Value vs Lean formula models in binary64": "same tolerances as against the defining sum (value: sum|terms| of the value; gradient: sum|terms| of the gradient components, with the (N+2)/r derivative scale in the floors)",
                "normal potential U vs Lean closed forms (oblate, prolate, sphere), FlatteningToJ2 vs model, residual of the Newton model at the f returned by J2ToFlattening": "16-64 ulp of the terms plus the conditioning of q(u) = Q z^3 (two terms of size 3/z cancel)",
                "magnetic field / rate vs field of the time-interpolated coefficients": "1e-12 x sum|terms| (terms weighted by the interpolation weights)",
                "FieldGeocentric vs Lean time-interpolation model on the implementation's own per-epoch gradients": "1e-14 relative to the sum of the magnitudes of the combined terms",
                "gravity W, V, g, T, delta, geoid height, anomaly": "1e-12 x sum|terms| of the respective harmonic sum (+ normal-field zonal terms beyond the model degree for T = W - U)",
                "GravityCircle / MagneticCircle vs model": "64 x 1.2e-16 x (M + 2) x sum|terms|",
                "normal gravity": "U: 64 ulp of GM/r + omega^2 (a^2 + r^2); gradient vs differenced closed form 1e-9; div(gamma) - 2 omega^2: 1e-6 (GM/r^3 + omega^2); surface gravity, J2, J4, J6, conversions: 1e-13 .. 1e-12 relative"},
    level_text=("Theorems (all inputs): the backward Clenshaw recurrence with index-dependent alpha_k, beta_k over any commutative ring returns sum c_k F_k for every "
                "three-term recurrence F (clenshaw_general, clenshaw_tail, clenshaw_outer: the two-family form used for cos/sin m lambda). VALUE IS THE SERIES, IN FULL: "
                "the textbook fully normalised and Schmidt semi-normalised associated Legendre functions are defined over R by their standard recurrences with "
                "Real.sqrt (Proofs/Harmonic.lean: anm, bnm, sectoral, legendre, Pbar; low degrees checked in legendre_low); the inner recurrence as coded (A, B with "
                "root[k] = sqrt k) generates q^l P_{m+l,m}/P_mm and the outer one q^m P_mm cos/sin m lambda (inner_recurrence_is_legendre, "
                "outer_recurrence_is_sectoral: identities between square roots of integer products), hence the model of SphericalEngine::Value<false, norm, L> -- the same term "
                "the driver executes in binary64 against SphericalHarmonic, SphericalHarmonic1, SphericalHarmonic2 -- equals (1/scale) sum_m sum_n (C~nm cos m lambda + "
                "S~nm sin m lambda) (a/r)^(n+1) Pnm(cos theta) with C~ = scale * combined coefficients (value_is_series, value_is_series_alg, value_is_series_unscaled, "
                "value_is_series_partial, value_eq_valuePt, innerSum_eq). GRADIENT: the model of Value<true, norm, L> (inner sums wr, wt, outer sums vr, vt, vl, Cartesian "
                "assembly) returns the same value (sphPt_v) and its spherical components are the termwise derivatives of that series: vr with (a/r)^(n+1) -> "
                "-(n+1)(a/r)^(n+1)/r, vl = 1/(r u) x [C cos + S sin -> m(S cos - C sin)], vt = 1/r x [Pnm -> dPnm/dtheta] (grad_r_is_series, grad_lambda_is_series, "
                "grad_theta_is_series with clenD_sum: Clenshaw summation of the differentiated recurrence), and as derivatives in the analytic sense: x -> valuePt(...) is "
                "differentiable in r, theta, lambda with derivative vr, r vt, r u vl (grad_r_is_derivative, grad_theta_is_derivative, grad_lambda_is_derivative; u = sin theta != 0, r != 0); "
                "the Cartesian assembly is the orthogonal rotation of the spherical frame (rotate_orthogonal). CIRCLE: the model of SphericalEngine::Circle<gradp> + "
                "CircularEngine::Value equals the point evaluation as the same real number, value and all gradient components, for every longitude (circle_eq_value, "
                "circle_eq_value_nograd, circle_eq_point, circle_is_series). STORAGE: index(n, m) = mN - m(m-1)/2 + n is injective on the stored triangle, has range [0, Csize) and is "
                "onto it, Csize is the number of stored pairs (index_injective, index_range, index_contiguous, index_surjective, csize_count); the "
                "range-checked accessors return the stored coefficient iff n <= nmx and m <= mmx and 0 otherwise (truncation_selects, combC_two). MAGNETIC TIME: "
                "fields are linear in time within an epoch, continuous across epoch boundaries and extrapolated with the first / "
                "last epoch (time_interp, time_linear, time_continuous, time_extrapolation, epochIndex_spec). NORMAL GRAVITY: the normal potential is constant on the "
                "reference ellipsoid for oblate, prolate and spherical bodies (normal_U_const, normal_U_const_prolate, normal_U_const_sphere); FlatteningToJ2 is Heiskanen-Moritz "
                "eq. 2-90 (flatteningToJ2_is_HM); a fixed point of the Newton step of J2ToFlattening is a zero of its residual and the flattening returned there satisfies "
                "FlatteningToJ2(f) = J2 (newton_fixed_point, j2Flattening_spec, j2_fixed_point_inverts, j2_newton_fixed_point_inverts). Correspondence: the Int model of coeff "
                "(index, sizes, constructor checks, all accessors) exactly; the formula models of Value<false>, Value<true> (value and Cartesian gradient), Circle<false/true> + "
                "CircularEngine::Value at the implementation's (p, sin lon, cos lon) for L = 1, 2, 3 and both normalisations; the time-interpolation model; the normal-potential "
                "closed forms (oblate, prolate, sphere), FlatteningToJ2, and the Newton residual at the flattening returned by J2ToFlattening. Oracles on the implementation (long double, "
                "independent of the library): the defining double sum with "
                "forward-recurrence normalised Legendre functions and analytic derivatives for value, gradient and circles; gradient = central "
                "differences of the value; magnetic and gravity models loaded from synthetic files reproduce the field of the file's coefficients (time "
                "interpolation/extrapolation, constant term, rotation to east-north-up, H F D I and their rates, V, W, g, T = W - U, disturbance, geoid "
                "height, spherical anomaly), circle objects member by member; NormalGravity: U constant on the ellipsoid, grad U = returned gravity, "
                "div gamma = 2 omega^2, Somigliana, J2/J4/J6, J2 <-> f. Not proved: the chain rule from (r, theta, lambda) to (x, y, z) (only the orthogonality of the assembly), "
                "convergence of the Newton iteration of J2ToFlattening (only its fixed points), the prolate branch of J2ToFlattening/FlatteningToJ2, the general (off-ellipsoid) "
                "identification of NormalGravity::V0's coordinate computation with (u, beta), GravityModel/MagneticModel file handling (oracles only); no floating-point error bound is proved."),
    level_note=("hand-written models (Model/Harmonic.lean) of SphericalEngine::coeff, Value<false/true, norm, L>, Circle<gradp, norm, L>, CircularEngine::Value, "
                "MagneticModel::FieldGeocentric's time handling, NormalGravity's closed forms (oblate, prolate, sphere) and the Newton residual of J2ToFlattening; nothing is regenerated from the source (no tables in this property): the tie to the current source is the "
                "correspondence run; synthetic but format-valid .wmm/.wmm.cof and .egm/.egm.cof files written under _cache/tmp; oracle in x87 long double"),
    technique="Lean 4 proofs (ring-generic Clenshaw, Int arithmetic for the packed storage, real closed forms) + binary64/Int execution of the same definitions against the implementation + long-double defining-sum oracle",
    assumptions=["the tolerance 1e-12 x sum|terms| (degree <= 32, linear growth beyond) is the accuracy class assumed in DESIGN.md; the library documents no figure for the harmonic sums",
                 "values whose scaled intermediate sums underflow (|V| < 2^-450) and points within eps() = 2^-78 of the axis are compared with the absolute floors stated in the tolerances",
                 "normal-field zonal harmonics beyond the degree of a (small synthetic) gravity model are not part of T as coded; the comparison with the closed-form W - U allows for them",
                 "open findings F-C19d (int(floor(t/dt0)) undefined for huge / infinite / NaN time), F-C19a (potential returned by GravityModel::Disturbance / T(X,Y,Z,delta) lacks the degree-0 term), F-C19b (Schmidt-normalised gravity models: normal zonal terms divided by sqrt(2n+1)), F-C19c (Jn(n >= 4) is NaN for f = 0) are reported as KNOWN-FINDING for exactly those input classes"],
)
