import hashlib as _hl19, os as _os19

_verif19 = _os19.path.dirname(_os19.path.dirname(_os19.path.dirname(_os19.path.abspath(__file__))))
_repo19 = _os19.environ.get("GV_REPO", "/repo")


def _tools_digest19():
    # the harness compiles $GV_REPO/tools/Gravity.cpp and MagneticField.cpp into itself: make the harness cache key depend on their text
    h = _hl19.sha256()
    for f in ("Gravity.cpp", "MagneticField.cpp"):
        try:
            h.update(open(_os19.path.join(_repo19, "tools", f), "rb").read())
        except OSError:
            h.update(b"missing")
    return h.hexdigest()[:16]


PROPS["C19"] = dict(
    harnesses=[dict(name="C19", procs_quick=2, procs_thorough=16,
                    extra=["-I" + _os19.path.join(_verif19, "harness", "C19_tools"), "-DGV_TOOLS_DIGEST=0x" + _tools_digest19()])],
    gens=["gen_c19glue"],
    rule=("coefficient storage: every (N, nmx, mmx, stored order) with N <= 5 (8 thorough) incl. invalid dimensions, every (n, m) of each, plus random "
          "layouts to degree 60; harmonic sums: L = 1, 2, 3 coefficient sets, FULL and SCHMIDT, first set truncated below its layout, secondary sets "
          "stored with a larger layout degree than used (nmx_l < N_l), empty secondary sets, multipliers tau in {1, -1, 0.5, 2, 0, random}; coefficient "
          "vectors: uniform, wide dynamic range 10^[-8, 8] with both signs, geophysical decay, sparse, a single non-zero coefficient; points: r in [a, 1.2a], "
          "r < a, r up to 1e6 a, on the polar axis, 1e-14..1e-3 degrees from it, equatorial plane, principal meridians; degree <= 12 with the Lean models (value, gradient, circle with and without gradient), <= 40 "
          "quick, <= 360 thorough (oracle only); synthetic magnetic model files (1-4 epochs of different sizes, with/without constant block, both "
          "normalisations, times inside / before / after / exactly on / one ulp before epoch boundaries / 1000 years away, truncated loading) and gravity "
          "model files (ModelMass = or != ReferenceMass, several flattenings, height offset, correction multiplier, with/without geoid-correction block, "
          "truncated loading, h = 0 and h != 0, poles), every member of GravityCircle/MagneticCircle against the model; NormalGravity for WGS84, GRS80, "
          "sphere, prolate, random (a, GM, omega, f) to f = 0.6, omega = 0, |f| down to 1e-7; malformed coefficient-file headers (huge / negative / "
          "inconsistent degree). GLUE (second deepening round): synthetic .egm / .wmm files with varied metadata (name differing from the file name, descriptions with blanks "
          "and '=', unknown keys, comments, flattening as decimal / fraction / DynamicalFormFactor, 4 reference ellipsoids) read back through every accessor; GravityModel::Phi, U, "
          "W = V + Phi, T = W - U at random points; Circle(lat, h, caps) for all 64 unions of the six documented masks at h = 0 and h != 0 (every member either NaN or equal to "
          "the all-capabilities circle, Capabilities(), Capabilities(test)) and all 64 raw masks x {h = 0, h != 0} against the Lean capability model; default-constructed "
          "GravityCircle, MagneticCircle, CircularEngine, NormalGravity, SphericalHarmonic/1/2; MagneticModel accessors, all operator() / FieldGeocentric / FieldComponents "
          "overloads of model and circle on 1-4 epoch models with/without constant block on two ellipsoids; FieldComponents on generic, axis-aligned, H = 0, F = 0, 1e-150 "
          "and 1e150 fields; the normal zonal table of GravityModel for both normalisations, f in {WGS84, GRS80, 0.001, 1/150, 0, -0.002}, truncated loading, a huge model "
          "coefficient (early exit); every combination (unset / empty / set)^3 of GEOGRAPHICLIB_{GRAVITY,MAGNETIC}_PATH, GEOGRAPHICLIB_DATA, GEOGRAPHICLIB_*_NAME with a model "
          "in each candidate directory, explicit path, missing model; 7 harmless and 25 malformed variations of each file format; readcoeffs on a two-block stream for every "
          "(N0, M0) <= 4 (6 thorough) x every request (N, M) <= N0 + 1 incl. (-1, -1), truncate false/true, random to degree 40; the simple constructors with N1, N2 <= / > N, "
          "vectors longer than needed and one element short; root table: degree <= 60 (120 thorough) model fresh (forked child with cleared table) vs after smaller models / "
          "RootTable(large) / Clear + rebuild; NormalGravity V0, Phi, U at points outside, on and slightly inside 8 families of ellipsoids; tools/Gravity (-G -D -A -H, -c, -p, "
          "-N, -M, -w, --comment-delimiter, --input-string) and tools/MagneticField (-t, -c, per-line time as decimal year or date, -r, -p, -N, -T, -H guards, -w) in-process on "
          "1-6 input lines incl. malformed ones. non-trivial = finite value compared with an oracle; distinct = distinct (op, leading argument bits)"),
    tolerances={"sum, gradient, circle vs defining double sum (long double)": "1e-12 x max(1, (N+1)/32) x sum|terms| (terms of the value, resp. of the three spherical gradient components), plus 8 ulp of the point (|grad V| r eps: r, cos theta, sin theta are rounded), the documented pole offset eps() = 2^-78 times the derivative bound and the underflow floor 2^-450 of the internally scaled sums",
                "gradient vs central differences of the defining sum": "truncation bound 1e-12 (N+3)^2 relative + 1e-9",
                "circle vs point": "min(1e-12 x max(1,(N+1)/32), (32 + 2(M+1)^2) x 1.2e-16) x sum|terms|",
                "coefficient storage / accessors vs Lean model": "exact",
                "Value<false, norm, L>, Value<true, norm, L> (value + Cartesian gradient), Circle<gradp> + CircularEngine::Value vs Lean formula models in binary64": "same tolerances as against the defining sum (value: sum|terms| of the value; gradient: sum|terms| of the gradient components, with the (N+2)/r derivative scale in the floors)",
                "normal potential U vs Lean closed forms (oblate, prolate, sphere), FlatteningToJ2 vs model, residual of the Newton model at the f returned by J2ToFlattening": "16-64 ulp of the terms plus the conditioning of q(u) = Q z^3 (two terms of size 3/z cancel)",
                "magnetic field / rate vs field of the time-interpolated coefficients": "1e-12 x sum|terms| (terms weighted by the interpolation weights)",
                "FieldGeocentric vs Lean time-interpolation model on the implementation's own per-epoch gradients": "1e-14 relative to the sum of the magnitudes of the combined terms",
                "gravity W, V, g, T, delta, geoid height, anomaly": "1e-12 x sum|terms| of the respective harmonic sum (+ normal-field zonal terms beyond the model degree for T = W - U)",
                "GravityCircle / MagneticCircle vs model": "64 x 1.2e-16 x (M + 2) x sum|terms|",
                "accessors, strings, Capabilities, readcoeffs selection and stream position, lookup path and name, tool output lines vs Utility::str / DMS::Encode of the API values, root-table history": "exact",
                "circle members under a capability mask vs the all-capabilities circle": "64 ulp of the largest component (same arithmetic on the same sums)",
                "Phi, W = V + Phi, U = V0 + Phi (value and gradient)": "4 ulp of the sum of the magnitudes of the two terms",
                "T = W - U, delta = grad W - grad U through the public members": "1e-11 relative to |W| + |U| (resp. the gradients) plus the normal zonal terms beyond the model degree",
                "FieldComponents vs definition / Lean model": "H, F: 4-8 ulp; D, I: 1e-13 x 180 deg; rates: 8-16 ulp of the sum of the magnitudes of the products that are subtracted",
                "normal zonal terms vs -J_n (GMref/GMmodel)(aref/amodel)^n [/ sqrt(2n+1)]": "1e-12 relative (long double J_n from H+M 2-92); vs Lean model of the loop: 8 ulp per entry, exit degree equal unless the exit test is within 4 ulp of deciding otherwise",
                "epoch split stored in MagneticCircle vs Lean epochSplit": "t1: 4 ulp of |t - t0| + n dt0; n (through the kernels), interpolate, constant-term flag: exact",
                "normal gravity": "U: 64 ulp of GM/r + omega^2 (a^2 + r^2); gradient vs differenced closed form 1e-9; div(gamma) - 2 omega^2: 1e-6 (GM/r^3 + omega^2); surface gravity, J2, J4, J6, conversions: 1e-13 .. 1e-12 relative"},
    level_text=("Theorems (all inputs): the backward Clenshaw recurrence with index-dependent alpha_k, beta_k over any commutative ring returns sum c_k F_k for every "
                "three-term recurrence F (clenshaw_general, clenshaw_tail, clenshaw_outer: the two-family form used for cos/sin m lambda). VALUE IS THE SERIES, IN FULL: "
                "the textbook fully normalised and Schmidt semi-normalised associated Legendre functions are defined over R by their standard recurrences with "
                "Real.sqrt (Proofs/Harmonic.lean: anm, bnm, sectoral, legendre, Pbar; low degrees checked in legendre_low); the inner recurrence as coded (A, B with "
                "root[k] = sqrt k) generates q^l P_{m+l,m}/P_mm and the outer one q^m P_mm cos/sin m lambda (inner_recurrence_is_legendre, "
                "outer_recurrence_is_sectoral: identities between square roots of integer products), hence the model of SphericalEngine::Value<false, norm, L> -- the same term "
                "the driver executes in binary64 against SphericalHarmonic, SphericalHarmonic1, SphericalHarmonic2 -- equals (1/scale) sum_m sum_n (C~nm cos m lambda + "
                "S~nm sin m lambda) (a/r)^(n+1) Pnm(cos theta) with C~ = scale * combined coefficients (value_is_series, value_is_series_alg, value_is_series_unscaled, "
                "value_is_series_partial, value_eq_valuePt, innerSum_eq). GRADIENT: the model of Value<true, norm, L> (inner sums wr, wt, outer sums vr, vt, vl, Cartesian "
                "assembly) returns the same value (sphPt_v) and its spherical components are the termwise derivatives of that series: vr with (a/r)^(n+1) -> "
                "-(n+1)(a/r)^(n+1)/r, vl = 1/(r u) x [C cos + S sin -> m(S cos - C sin)], vt = 1/r x [Pnm -> dPnm/dtheta] (grad_r_is_series, grad_lambda_is_series, "
                "grad_theta_is_series with clenD_sum: Clenshaw summation of the differentiated recurrence), and as derivatives in the analytic sense: x -> valuePt(...) is "
                "differentiable in r, theta, lambda with derivative vr, r vt, r u vl (grad_r_is_derivative, grad_theta_is_derivative, grad_lambda_is_derivative; u = sin theta != 0, r != 0); "
                "the Cartesian assembly is the orthogonal rotation of the spherical frame (rotate_orthogonal). CIRCLE: the model of SphericalEngine::Circle<gradp> + "
                "CircularEngine::Value equals the point evaluation as the same real number, value and all gradient components, for every longitude (circle_eq_value, "
                "circle_eq_value_nograd, circle_eq_point, circle_is_series). STORAGE: index(n, m) = mN - m(m-1)/2 + n is injective on the stored triangle, has range [0, Csize) and is "
                "onto it, Csize is the number of stored pairs (index_injective, index_range, index_contiguous, index_surjective, csize_count); the "
                "range-checked accessors return the stored coefficient iff n <= nmx and m <= mmx and 0 otherwise (truncation_selects, combC_two). MAGNETIC TIME, ONE DEFINITION FOR "
                "BOTH IMPLEMENTATION COPIES: the epoch selection the driver executes (epochSel: comparisons only) is n = clamp(floor((t - t0)/dt0), 0, N - 1), t1 = t - t0 - n dt0, "
                "interpolate iff n + 1 < N (epochSel_is_clamped_floor, epochSplit_spec, epochSel_eq_epochIndex); the time-dependent field built on it equals the model of the first "
                "round (fieldOfTime_eq_fieldAt, so time_interp, time_linear, time_continuous, time_extrapolation, epochIndex_spec apply to it) and MagneticCircle's combination of what "
                "MagneticModel::Circle stores is the same function (circle_copy_is_model_copy); the field is a CONTINUOUS function of the time on the whole real line for every number of "
                "epochs (time_continuous_everywhere, dt0 != 0: Continuous.if_le over the epoch boundaries), and is extrapolated linearly before the second and after the last epoch with "
                "the first difference quotient resp. the secular-variation block as rate (time_extrapolation_before, time_extrapolation_after). FIELD COMPONENTS (model of "
                "MagneticModel::FieldComponents): H^2 = Bx^2 + By^2, F^2 = H^2 + Bz^2 (comps_H_sq, comps_F_sq); H sin D = Bx, H cos D = By, tan D = Bx/By; F sin I = -Bz, F cos I = H, "
                "tan I = -Bz/H (comps_D, comps_tan_D, comps_I, comps_tan_I; D, I in degrees, H != 0); the rates are time derivatives along B + s dB/dt: HasDerivAt for H, F, I as "
                "returned (comps_Ht_is_derivative, comps_Ft_is_derivative, comps_It_is_derivative), for D as returned when By > 0 (comps_Dt_is_derivative_north) and for the branch "
                "arctan(Bx/By) when By != 0 (comps_Dt_is_derivative_partial: the full statement, for every field not pointing due south, is not proved). GRAVITY MODEL BOOKKEEPING: the "
                "table _zonal assembled by the constructor holds 1, zeros at odd degrees and -(GMref/GMmodel)(aref/amodel)^n J_n/sqrt(2n+1) (FULL) resp. without the root (SCHMIDT) at the "
                "even degrees present (zonal_table_entries); over R the loop stops only beyond the model degree or at a vanishing term and the table has odd length (zonal_table_stops_only_at_zero); "
                "with tau = -1 the combined coefficients of _disturbing are C_nm - delta_m0 Z_n and S_nm (disturbing_coeff) and the harmonic sum is linear in them: T-sum = V-sum - normal "
                "zonal sum for both normalisations (disturbing_is_V_minus_normal). CAPABILITY MASKS: for all 64 masks and h = 0 / h != 0 a GravityCircle member that passes its own test reads "
                "only parts that GravityModel::Circle built (caps_enabled_reads_built); each documented mask enables exactly its documented members, GEOID_HEIGHT never for h != 0, ALL everything at h = 0 "
                "(caps_documented_masks); enabling is monotone (caps_monotone). Gen (re-extracted from GravityModel.hpp, GravityCircle.cpp, GravityModel.cpp, MagneticModel.cpp on every run): the "
                "capability enums are the documented ones, every member tests the mask of the model, Circle clears CAP_GAMMA0 | CAP_C for h != 0 and builds each part under the modelled bit "
                "(caps_table_extracted, caps_tests_extracted); the environment variables are consulted in the modelled order with the documented defaults (lookup_env_extracted); the metadata keys "
                "recognised are the ones the synthetic files exercise (metadata_keys_extracted). LOOKUP ORDER: explicit path, then the kind's variable, then GEOGRAPHICLIB_DATA/<kind>, then the "
                "compile-time default (lookup_order). NORMAL GRAVITY: the normal potential is constant on the "
                "reference ellipsoid for oblate, prolate and spherical bodies (normal_U_const, normal_U_const_prolate, normal_U_const_sphere); U = V0 + Phi in ellipsoidal coordinates for the "
                "three shapes and Phi = omega^2 (X^2 + Y^2)/2 with its gradient as derivative (normalU_eq_V0_add_Phi, _prolate, _sphere, phiRot_gradient); FlatteningToJ2 is Heiskanen-Moritz "
                "eq. 2-90 (flatteningToJ2_is_HM); a fixed point of the Newton step of J2ToFlattening is a zero of its residual and the flattening returned there satisfies "
                "FlatteningToJ2(f) = J2, on the oblate branch (newton_fixed_point, j2Flattening_spec, j2_fixed_point_inverts, j2_newton_fixed_point_inverts) and on the prolate branch with "
                "Q0 = Qf(-e2, true) = QzAlt(sqrt(-e2/(1 - e2))) (j2_fixed_point_inverts_prolate, j2_newton_fixed_point_inverts_prolate, j2Flattening_neg). Correspondence: the Int model of coeff "
                "(index, sizes, constructor checks, all accessors) exactly; the formula models of Value<false>, Value<true> (value and Cartesian gradient), Circle<false/true> + "
                "CircularEngine::Value at the implementation's (p, sin lon, cos lon) for L = 1, 2, 3 and both normalisations; BOTH copies of the epoch logic against epochSplit / fieldCombine "
                "(FieldGeocentric on the implementation's per-epoch gradients; the _t1, _interpolate, _dt0 stored by Circle and MagneticCircle::FieldGeocentric on the circle's own sums); "
                "fieldComponents; zonalTable on the implementation's J_n and coefficients; readSelC / readSelS / readDims / blockBytes (what readcoeffs stores and where it leaves the stream); "
                "gcEffCaps / gcEnabled for all 128 (mask, h) combinations; defaultPath / defaultName for all 54 environment combinations; phiRot and U = V0 + Phi; the normal-potential "
                "closed forms (oblate, prolate, sphere), FlatteningToJ2 (oblate, prolate), and the Newton residual at the flattening returned by J2ToFlattening (both branches). Oracles on the "
                "implementation (long double, independent of the library): the defining double sum with "
                "forward-recurrence normalised Legendre functions and analytic derivatives for value, gradient and circles; gradient = central "
                "differences of the value; magnetic and gravity models loaded from synthetic files reproduce the field of the file's coefficients (time "
                "interpolation/extrapolation, constant term, rotation to east-north-up, H F D I and their rates, V, W, g, T = W - U, disturbance, geoid "
                "height, spherical anomaly), circle objects member by member with and without capability masks; every accessor echoes the file; tools/Gravity and tools/MagneticField of the "
                "current tree run in-process: one output line per input line (two with -r), each equal to Utility::str / DMS::Encode of the API values, ERROR lines and exit status for "
                "malformed lines and guard bands, -c equal to point mode; root-table history independence against a fresh process; NormalGravity: U constant on the ellipsoid, grad U = returned gravity, "
                "div gamma = 2 omega^2, Somigliana, gravity flattening, J2/J4/J6, J2 <-> f. Not proved: the chain rule from (r, theta, lambda) to (x, y, z) (only the orthogonality of the assembly), "
                "convergence of the Newton iteration of J2ToFlattening (only its fixed points), the general (off-ellipsoid) "
                "identification of NormalGravity::V0's coordinate computation with (u, beta), the declination rate across By = 0, that readSelC/readSelS enumerate the sub-triangle in storage order "
                "(exact correspondence + harness oracle only), the text layer of the metadata parser (Utility::ParseLine) and the tools' option parsing (oracles only); no floating-point error bound is proved."),
    level_note=("hand-written models (Model/Harmonic.lean) of SphericalEngine::coeff, Value<false/true, norm, L>, Circle<gradp, norm, L>, CircularEngine::Value, "
                "MagneticModel::FieldGeocentric's time handling, NormalGravity's closed forms (oblate, prolate, sphere) and the Newton residual of J2ToFlattening; Model/HarmonicGlue.lean: epoch selection, FieldComponents, normal zonal table, readcoeffs selection, capability bookkeeping, lookup order, prolate J2; "
                "Gen/C19Glue.lean (capability enums, per-member mask tests, Circle's conditions, environment variables in lookup order, default names, metadata keys) is regenerated from the source on every run; the rest of the tie to the current source is the "
                "correspondence run; tools/Gravity.cpp and tools/MagneticField.cpp of the current tree are compiled into the harness; synthetic but format-valid .wmm/.wmm.cof and .egm/.egm.cof files written under _cache/tmp; oracle in x87 long double"),
    technique="Lean 4 proofs (ring-generic Clenshaw, Int arithmetic for the packed storage, real closed forms) + binary64/Int execution of the same definitions against the implementation + long-double defining-sum oracle",
    assumptions=["the tolerance 1e-12 x sum|terms| (degree <= 32, linear growth beyond) is the accuracy class assumed in DESIGN.md; the library documents no figure for the harmonic sums",
                 "values whose scaled intermediate sums underflow (|V| < 2^-450) and points within eps() = 2^-78 of the axis are compared with the absolute floors stated in the tolerances",
                 "normal-field zonal harmonics beyond the degree of a (small synthetic) gravity model are not part of T as coded; the comparison with the closed-form W - U allows for them",
                 "where H = 0 the declination and where F = 0 the inclination is not defined: the values returned there are compared with the Lean model of the code only",
                 "GravityModel includes the normal zonal terms only up to the first one that is negligible in binary64 against the model's own coefficient (documented heuristic); nothing is required beyond it",
                 "the compile-time data directory is the one of the Config.h generated by `check` (/usr/local/share/GeographicLib)",
                 "findings F34-F37 (degree-0 term of T, Schmidt normal zonals, Jn for f = 0, int cast of the epoch number) and F92 (readcoeffs(truncate) with the documented request N = M = -1 left the stream N0 + 1 doubles beyond the block; repaired e86bab9) are repaired in /repo; the request (-1, -1) is part of the exhaustive readcoeffs stratum, so a regression alarms"],
)
