PROPS["C19"] = dict(
    harnesses=[dict(name="C19", procs_quick=2, procs_thorough=16)],
    gens=[],
    rule="(draft)",
    tolerances={},
    level_text="(draft)",
    level_note="(draft)",
    technique="Lean 4 proof + correspondence",
    assumptions=[],
)
