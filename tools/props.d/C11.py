PROPS["C11"] = dict(
    harnesses=[dict(name="C11", procs_quick=2, procs_thorough=16, extra=["-lquadmath"])],
    gens=[],
    rule="TODO", tolerances={}, level_text="TODO", level_note="TODO", technique="TODO", assumptions=[],
)
