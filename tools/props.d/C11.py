PROPS["C11"] = dict(
    harnesses=[dict(name="C11", procs_quick=2, procs_thorough=16, extra=["-lquadmath"])],
    gens=[],
    rule=("configurations: class ∈ {polar stereographic, Lambert conformal conic, Albers} × ellipsoid f ∈ {WGS84, 0, 0.1, −0.1, 1/150} (a ∈ {WGS84, 6.4e6, 1, "
          "6378388}) × scale k ∈ {1, 0.9996, 0.994, 0.5, 2, 1.25} × constructor stratum {one parallel; two equal; 1e-6…1e-12 apart; ±90 (polar/azimuthal); 0 "
          "(Mercator/cylindrical); symmetric about the equator; nearly symmetric; northern pair; southern pair (negative cone constant); mixed hemispheres; one "
          "parallel much nearer a pole than the other; sin/cos form; sin/cos with cos = 1e-4…1e-12; multiples of 10°} × optional SetScale(lat, k) (incl. the pole of a "
          "polar cone); the library's static instances and the header's example. Points: lat ∈ {±90, ±(90−1e-k), ±1e-k, the standard parallels and their neighbourhood, "
          "integers, uniform}, lon0 ∈ {0, ±180, 90, 360, 540, uniform}, lon − lon0 ∈ {0, ±1e-k, ±179.9…, multiples of 360 added, uniform}. Divided differences: x = y, "
          "1–4 ulp apart, 1e-3…1e-12 apart, opposite signs, uniform, 1e-8…1e3. Constructor domain: latitudes {±90, 0, 91, −90.0000001, 100, NaN, inf, uniform in ±95} "
          "× invalid a, f, k. non-trivial = finite result; distinct = distinct (op, leading argument bits)"),
    tolerances={
        "closed form x, y (binary128 oracle)": "4·(10 nm·(a/a_WGS84)·max(1, k) + 1e-14·ρ) [ρ = distance from the origin; 10 nm documented as true distance, scale error 7e-15 documented] "
                                               "+ for two distinct parallels the documented origin-latitude error 4·4.5e-14° (× e²/e²_WGS84 up to |f| = 1/120, × 1000 for f = ±0.1); only inside the "
                                               "documented domain dlat ≤ 160°, max|lat| ≤ 90 − min(2e-4, 2.2e-6(180−dlat), 6e-8 dlat²)",
        "k, gamma vs closed form": "1e-12 relative + 4·10 nm / (distance from the apex of the cone)",
        "Reverse∘Forward": "4·(10 nm + 1e-14·ρ·max(k, 1/k)) on the ellipsoid or 4·(10 nm + 1e-14·ρ) in the plane, where |θ| < 179° (an Albers cone with k²n > 1 overlaps itself)",
        "Forward∘Reverse": "the same in the plane + one ulp of 90° on the ground",
        "conformality / equal area (Richardson differencing of the implementation, h = 0.02°)": "1e-7 relative (a-priori error of the differencing), |lat| ≤ 85°",
        "prescribed scale (standard parallels, SetScale latitude), central scale": "1e-12 relative + 4·10 nm / apex distance",
        "constructor / SetScale / mirror / parallel-order equivalence": "2 × the position tolerance",
        "model vs implementation": "polar stereographic 64 ulp of ρ (+ the model's own sensitivity to 8 ulp of hypot in Reverse), taupf 32/(1−es²) ulp, tauf 64 ulp + sensitivity, divided "
                                   "differences 32 ulp, hemisphere wrapper and constructor domains exact",
    },
    level_text=("Theorems over ℝ about the definitions the driver executes (Model/Conic.lean): polar stereographic Reverse∘Forward = id for every ellipsoid, scale, hemisphere, latitude and "
                "longitude and every inversion tauf of taupf (ps_inverse, from the key identity (1/t − t)/2 = τ′, ps_key_identity), the pole case (ps_pole), the scale is ρ/(a m(φ)) "
                "(ps_scale_formula), the scale after SetScale is the requested one (ps_setscale), an exact solution is a fixed point of the Newton loop of tauf (tauf_loop_fixed); every "
                "divided-difference helper of both conic headers is the divided difference (g x − g y)/(x − y) of its function for x ≠ y: Dhyp, Dsn, Dlog1p, Dexp, Dsinh, Dasinh, Deatanhe "
                "(oblate and prolate forms), with the diagonal values of Dhyp and Dasinh; for every cone kernel the hemisphere bookkeeping of LambertConformalConic / AlbersEqualArea satisfies "
                "the mirror law Forward(−cone)(−φ) = mirror(Forward(cone)(φ)) (conic_sign_once, conic_reverse_mirror), Reverse∘Forward = id whenever the northern kernels are mutually "
                "inverse (conic_reverse_forward), the twice-applied sign of the old Albers code is the mirror-latitude map (conic_sign_twice_is_mirror_latitude), Init sees the same canonical "
                "parallels for a cone and its mirror image (cone_canon_mirror); the three constructor forms of each class accept the same parameter sets (ctor_domain_two_vs_sincos, "
                "ctor_domain_one_vs_two). Correspondence (binary64 execution of the same definitions against the implementation): taupf, tauf, PolarStereographic Forward/Reverse/SetScale, all "
                "nine helpers (called through the private static members), the hemisphere wrapper predicted exactly from the implementation's own answer on the northern problem, accept/reject "
                "of the three constructors. Partial — not theorems, covered by oracles on the implementation only: LambertConformalConic::Init / Forward / Reverse and AlbersEqualArea::Init / "
                "txif / tphif / Forward / Reverse kernels (Snyder closed forms in binary128 incl. Mercator, polar, cylindrical and azimuthal limits and prolate ellipsoids; closures; conformality "
                "and equal area by differencing; prescribed scales; constructor, SetScale, parallel-order and mirror equivalences; longitude wrap; NaN propagation); convergence of the "
                "Newton iterations; DDatanhee and atanhxm1; floating-point error bounds."),
    level_note=("hand-written polymorphic model (RealLike) of PolarStereographic.cpp, Math::taupf/tauf/eatanhe, the divided-difference helpers of LambertConformalConic.hpp / AlbersEqualArea.hpp, the "
                "_sign bookkeeping and the constructor checks; LatFix, tand, sincosd, atand, atan2d, AngNormalize are kernels (C16); nothing is regenerated from the source (no tables): the tie to "
                "the code is the execution of the model against the working tree on every run; the oracle is independent code in IEEE binary128 (libquadmath) using Snyder (1987) eqs 3-12, 14-1…14-18, "
                "15-1…15-11, 21-32…21-40 with analytic continuation e → i ε for prolate ellipsoids"),
    technique="Lean 4 proofs over ℝ of the closed-form models and of the hemisphere/constructor bookkeeping for every kernel + binary64 execution of the same definitions against the implementation + binary128 closed-form oracle",
    assumptions=["the cone kernels of LCC/Albers are not modelled: their agreement with the textbook definitions is established by the binary128 oracle on sampled inputs only",
                 "Math::atand is odd and sincosd returns a valid sine/cosine pair with non-negative cosine on [-90, 90] (C16)",
                 "libm kernels (sinh, asinh, atanh, atan, exp, log, hypot) agree between Lean's Float and C++ to a few ulp",
                 "Snyder's formulas are the definitions of the projections; the origin of a two-parallel cone is the latitude of minimum (azimuthal) scale, as the headers state"],
)
