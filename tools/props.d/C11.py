import hashlib as _hl11, os as _os11

_verif11 = _os11.path.dirname(_os11.path.dirname(_os11.path.dirname(_os11.path.abspath(__file__))))


def _conicproj_digest():
    # the harness compiles $GV_REPO/tools/ConicProj.cpp into itself: make the harness cache key depend on its text
    p = _os11.path.join(_os11.environ.get("GV_REPO", "/repo"), "tools", "ConicProj.cpp")
    try:
        return _hl11.sha256(open(p, "rb").read()).hexdigest()[:16]
    except OSError:
        return "0"


PROPS["C11"] = dict(
    harnesses=[dict(name="C11", procs_quick=2, procs_thorough=16,
                    extra=["-lquadmath", "-I" + _os11.path.join(_verif11, "harness", "C11_tools"), "-DGV_TOOLS_DIGEST=0x" + _conicproj_digest()])],
    gens=[],
    rule=("configurations: class ∈ {polar stereographic, Lambert conformal conic, Albers} × ellipsoid f: 3/4 of the cases terrestrial {WGS84, 0, 0.1, −0.1, 1/150}, 1/4 "
          "eccentric {±0.5, ±0.25, 0.75 (e² exact dyadic rationals; e² = 3/4 is the threshold of DDatanhee), 1−√½ (e² ≈ 1/2), 1−√2 (e² ≈ −1), −1 (e² = −3: every sixth term "
          "of DDatanhee2 vanishes), −1 ± 1 ulp, −2 (e² = −8), −3, −5, 0.9, 0.99} × a ∈ {WGS84, 6.4e6, 1, 6378388, 1e-3, 1e10} × scale k ∈ {1, 0.9996, 0.994, 0.5, 2, 1.25; 1e-3, "
          "1e3, 0.03, 40} × constructor stratum {one parallel; two equal; 1e-6…1e-12 apart; ±90 (polar/azimuthal); 0 (Mercator/cylindrical); symmetric about the equator; "
          "nearly symmetric; northern pair; southern pair (negative cone constant); mixed hemispheres; one parallel much nearer a pole than the other; sin/cos form; sin/cos "
          "with cos = 1e-4…1e-12; cone constant at the thresholds n = 1/4, n = 1/2, nc = 1/2 of Init/Reverse (both sides, 1e-9…12° away, and the one-parallel cone exactly on it); "
          "one parallel exactly on the equator; both in one hemisphere with the lower 1e-6…10° from the equator; multiples of 10°} × optional SetScale(lat, k) (incl. the pole "
          "of a polar cone, k = 1e-3, 250); fixed: the library's static instances (called as such), the header's example, parallels (20, 50) on every eccentric f for both "
          "classes (the F61 witness), the witness of the cycling Newton iteration. Points: lat ∈ {±90, ±(90−1e-k), ±1e-k, the standard parallels and their neighbourhood, the "
          "origin latitude and its ±2 ulp neighbours (dpsi == 0 branch), integers, uniform}, lon0 ∈ {0, ±180, 90, 360, 540, uniform}, lon − lon0 ∈ {0, ±1e-k, ±179.9…, multiples "
          "of 360 added, uniform}. SetScale histories of 2–5 calls (all three classes). tools/ConicProj on one line (forward/reverse, -w, -p ∈ {−2, 0, 3, 6, 10, 12}, latitudes out "
          "of range). Helpers: tan φ incl. 0, ±1, 1/√3, √3; DDatanhee arguments incl. x = y = 1, y = 1, x ∈ {0, −0, ±5e-324, 1e-300}, swapped order; atanhxm1 at 0, ±1/2 ± 2 ulp, "
          "±2^-k ± 1 ulp, 1e-300, 5e-324, e² of the strata; tauf at |taup| = 70, 2/√ε, 0, 1 ± 2 ulp. Divided differences: x = y, 1–4 ulp apart, 1e-3…1e-12 apart, opposite signs, "
          "one argument ±0, uniform, 1e-8…1e3. Constructor domain: latitudes {±90, 0, 91, −90.0000001, 100, NaN, inf, uniform in ±95} × invalid a, f (incl. 1 − 1 ulp), k. "
          "non-trivial = finite result; distinct = distinct (op, leading argument bits)"),
    tolerances={
        "kappa(f)": "max(1, b/a, (a/b)²): (a/b)² = 1/(1−e²) is the condition number of the stored e² (the factor 1 + |e'²| of C15), b/a the size of a prolate body in units of a; "
                    "every documented figure below is multiplied by it (1.007 for WGS84, 1.23 for f = 0.1, 4 for f = 0.5, 100 for f = 0.9, 6 for f = −5)",
        "computed condition of the problem": "32 ulp × the displacement of the exact (binary128) answer under one ulp of each input (f, the parallels or their sines/cosines, the "
                    "SetScale latitude, lat, lon, lon0), added to the closed-form tolerances of x, y, k, gamma and of the latitude of origin",
        "closed form x, y (binary128 oracle)": "4·kappa·(10 nm·(a/a_WGS84)·max(1, k [Albers: max(k, 1/k)]) + 1e-14·ρ) [ρ = distance from the origin; 10 nm documented as true distance, scale error 7e-15 documented] "
                                               "+ for two distinct parallels the documented origin-latitude error 4·4.5e-14° × (e²/e²_WGS84 up to |f| = 1/120, × 1000 for f = ±0.1, max(1000, kappa·e²/e²_WGS84) beyond), "
                                               "as a displacement along the meridian (× the meridional radius of curvature) and as a change of the cone constant (× R²/a × k1 [Albers] or 1/k1); "
                                               "+ 8 ulp of θ = n λ (k1² n λ for Albers) × the distance from the apex; only inside the documented domain dlat ≤ 160°, max|lat| ≤ 90 − min(2e-4, 2.2e-6(180−dlat), 6e-8 dlat²)",
        "k, gamma vs closed form": "kappa·(1e-12 relative + 4·10 nm / (distance from the apex of the cone)) + the origin-latitude error × |λ| (× k1² for Albers) for gamma",
        "Reverse∘Forward": "4·kappa·(10 nm + 1e-14·ρ·max(k, 1/k)) on the ellipsoid or 4·kappa·(10 nm·k0 [Albers: max(k0, 1/k0)] + 1e-14·ρ) in the plane, where |θ| < 179° (an Albers cone with k²n > 1 overlaps itself)",
        "Forward∘Reverse": "the same in the plane + one ulp of 90° on the ground (× the meridional radius of curvature)",
        "conformality / equal area (Richardson differencing of the implementation, h = 0.02°)": "1e-7·kappa² relative (a-priori error of the differencing; not used beyond 1e-3) + (dθ)⁴/30 in longitude, |lat| ≤ 85°",
        "prescribed scale (standard parallels, SetScale latitude, SetScale histories), central scale": "kappa·(1e-12 relative + 4·10 nm / apex distance) (+ 8 ulp per SetScale call)",
        "constructor / SetScale / mirror / parallel-order equivalence": "2 × the position tolerance",
        "static instances, overloads without gamma/k, inspectors, tools/ConicProj": "exact (bit for bit against a freshly constructed object with the documented parameters; printed line = Utility::str of the class's result)",
        "Albers helpers vs their definitions in binary128": "txif 64·kappa ulp, tphif∘txif 256·kappa ulp, atanhxm1 16 ulp × its condition number 1/((1−x)(1+v)), DDatanhee 128·kappa ulp of the value "
                                   "(+ of its operands where 1 − min(x, y) ≥ 1/4 and a straight divided difference is legitimate)",
        "kernel models vs implementation (Init members, Forward, Reverse, SetScale, txif, tphif, DDatanhee, atanhxm1)": "32 ulp + 8 × the largest deviation of five runs of the "
                                   "model with hypot and log jiggled in the last bit by a hash (last-bit conditioning probe; nothing fitted); _drhomax on the implementation's own members; "
                                   "Reverse k additionally |ψ| ulp (k is an exponential of the isometric latitude); lat/lon 64 ulp of 90°/180°; Reverse and tphif/tauf are compared only where the "
                                   "coded Newton loop stops by its own tolerance (the cap, 50 iterations since the repair 707b423 of finding F88, is silent); not run inside the classes of the open findings on Init",
        "model vs implementation": "polar stereographic 64·max(1, 1/(1−e²)) ulp of ρ (+ the model's own sensitivity to 8 ulp of hypot in Reverse), taupf 32·max(1, 1/(1−e²)) ulp, tauf 64·max(1, 1/(1−e²)) ulp + sensitivity, divided "
                                   "differences 32 ulp, hemisphere wrapper and constructor domains exact",
    },
    level_text=("Theorems over ℝ about the definitions the driver executes (Model/Conic.lean, Model/ConicKernels.lean). Polar stereographic: Reverse∘Forward = id for every "
                "ellipsoid, scale, hemisphere, latitude and longitude and every inversion tauf of taupf (ps_inverse, ps_key_identity), pole case, k = ρ/(a m(φ)), SetScale, Newton "
                "fixed point. Divided differences: Dhyp, Dsn, Dlog1p, Dexp, Dsinh, Dasinh, Deatanhe (oblate, prolate), Datanhee (oblate, prolate for every pair, sphere) are (g x − g y)/(x − y). Hemisphere "
                "bookkeeping for every cone kernel: mirror law, Reverse∘Forward = id of the wrapper, canonical parallels; the three constructor forms accept the same sets. "
                "Cone kernels as coded: LCC — the coded x, y are ρ sin θ, ρ0 − ρ cos θ (cone_xy_closed); Forward's drho (both branches) is (scale/n)(e^{−nψ} − e^{−nψ0}) = ρ − ρ0 for "
                "ρ = a F tⁿ (lcc_drho_closed); k = k0 (scβ e^{−nψ})/(scβ0 e^{−nψ0}) (lcc_k_closed); with Init's _k0 the scale on the first standard parallel is k1 "
                "(lcc_scale_on_parallel1); the divided-difference cone constant num/den of the two-parallel Init is Snyder's (ln m1 − ln m2)/(ln t1 − ln t2) for oblate (lcc_n_snyder), prolate and "
                "spherical ellipsoids (lcc_n_closed, lcc_n_snyder_prolate — for every pair of parallels since the repair 36a144d of finding F84); NEW the careful evaluation of 1 − n for n ≥ 1/4 "
                "(all 60 lines: s, t, a, Dlog1p, tbm, tam via dbet, dχ, D(ν2, ν1) in both arms) is exactly 1 − n (lcc_one_minus_n, given that Deatanhe is a divided difference on the three pairs used), "
                "hence nc = √(max 0 (1 − n)(1 + n)) (lcc_nc_careful_oblate, lcc_nc_careful_prolate incl. the sphere); "
                "Reverse recovers drho (cone_reverse_drho), dpsi (lcc_reverse_dpsi) and tan χ in both branches 2n ≤ 1 / 2n > 1 (lcc_reverse_tchiA/B); Reverse∘Forward = id on the kernel "
                "level given tauf∘taupf = id (lcc_reverse_forward_kernel: drho, dpsi, tan χ, tan φ; ψ ≠ ψ0, below the _drhomax clamp). Albers — txif is the authalic tangent "
                "Q/√(QZ² − Q²) for oblate (txif_closed), prolate (txif_closed_prolate), spherical (txif_closed_sphere: txif = id) and any ellipsoid with the two divided differences (txif_closed_gen); "
                "NEW Init's s, sm1 = 1 − s and C are the closed forms of the comments, s = (tβ2² − tβ1²)/(scβ2² sxi2 − scβ1² sxi1), C = (scβ2² sxi2 − scβ1² sxi1)/(scβ2² scβ1² (sxi2 − sxi1)) "
                "(alb_s_sm1_C_closed, both branches of the (1−sxi)/(1−sphi) factors; DDatanhee enters as the second divided difference); the function u of the Newton iteration is "
                "sm1·g − (s/qZ)(1 − g(qZ − q0)) (alb_newton_u_closed), a fixed point of the Newton map is a zero of u and the loop stays there (alb_newton_fixed_point), and u = 0 is the defining "
                "equation s = sinφ0 qZ/(m0² + sinφ0 q0) (alb_defining_equation); dq = qZ(sin ξ − sin ξ0) (alb_dq); n0·drho = a(√(m0² − n0 dq) − √m0²), i.e. drho = ρ − ρ0 for ρ = a√(C − n q)/n (alb_drho_closed); "
                "Reverse recovers drho, scxi0(sin ξ − sin ξ0) and tan ξ (alb_reverse_drho, alb_reverse_dsxia, alb_reverse_txi); Reverse∘Forward = id on the kernel level given "
                "tphif∘txif = id (alb_reverse_forward_kernel); SetScale keeps _k2 = _k0² and the k·(1/k) area bookkeeping (alb_setscale_k2, alb_area_factor, alb_setscale_scale). "
                "NEW the series: atanhxm1's loop is Horner's rule for Σ_{1≤k<n} xᵏ/(2k+1) (atanhxm1_horner) and that series converges to atanh(√x)/√x − 1 (atanhxm1_limit, HasSum, 0 < x < 1); "
                "DDatanhee1: the t/c/z recurrences build the documented c[l] = the second divided difference of s^(2l+1) on (1, x, y) (dd1_coefficient), the value returned is a partial sum "
                "Σ_{l≤L} e2^l c[l]/(2l+1) (dd1_partial_sum) and the series converges to the second divided difference of atanhee (dd1_limit, HasSum, oblate); DDatanhee2: the inner c recurrence "
                "generates the binomial coefficients C(m+2, 2j+1) for every m, the coefficient polynomial is the odd/even part R_{m+2}/P_{m+2} of (1+e)^(m+2) (dd2_coefficient, dd2_PR_recurrence), "
                "the coefficients −t_m ee_m are the Taylor coefficients of 1/(1 − e²(1−d)²) for every m (dd2_taylor: formal inverse, coefficient by coefficient), the xy recurrence is "
                "(dy^(m+1) − dx^(m+1))/(dy − dx) (dd2_xy); a term vanishes identically iff R_{m+2}(e²) = 0 resp. P_{m+2}(e²) = 0 — at e² = −3 for m = 4, 10, 16, … — and two successive terms never "
                "do for e² ≠ 1 (dd2_vanishing_terms); the executed loop stops only after two successive negligible terms and returns a partial sum (dd2_stops_after_two), while the rule before "
                "9562c37 stops at the vanishing term m = 4 at e² = −3 although term 5 is not negligible (dd2_old_rule_refuted). "
                "Correspondence (binary64 execution of the same definitions against the implementation, private members through the harness): "
                "LambertConformalConic::Init (all 13 members, every branch incl. the careful 1 − n evaluation), Forward, Reverse, SetScale; AlbersEqualArea::Init (10 members, the Newton "
                "loop), Forward, Reverse, SetScale, txif, tphif, DDatanhee (all three evaluation paths), atanhxm1, polar stereographic, tauf/taupf, the divided differences — now on the eccentric "
                "strata as well. Partial — not theorems: Deatanhe/Datanhee as divided differences are hypotheses of the Init theorems where the ellipsoid is not fixed (instantiated for oblate, "
                "prolate (every pair since 36a144d) and spherical); the longitude recovery through atan2 in the kernel Reverse∘Forward theorems; convergence of the Newton iterations (tauf, tphif, Init — the repaired findings F86, F88 showed "
                "the unrepaired loops need not converge; the safeguarded Init loop is modelled with its backtracking); du as the derivative of u; the limits of DDatanhee1 for prolate ellipsoids and of DDatanhee2 (only: its coefficients are those of the Taylor series of the "
                "limit); monotonicity of the isometric latitude (ψ1 ≠ ψ2 is a hypothesis); floating-point error bounds (findings F84–F89, F96–F99 are floating-point/branch defects outside the real-number theorems' "
                "hypotheses). These stay covered by the binary128 closed-form oracle and the other oracles on the implementation."),
    level_note=("hand-written polymorphic model (RealLike) of PolarStereographic.cpp, Math::taupf/tauf/eatanhe, the divided-difference helpers of LambertConformalConic.hpp / AlbersEqualArea.hpp, the "
                "_sign bookkeeping, the constructor checks and the cone kernels (Init, Forward, Reverse, SetScale, the Albers series); LatFix, tand, sincosd, atand, atan2d, AngNormalize are kernels (C16); "
                "nothing is regenerated from the source (no tables): the tie to the code is the execution of the model against the working tree on every run; tools/ConicProj.cpp of the working tree is compiled "
                "into the harness; the oracle is independent code in IEEE binary128 (libquadmath) using Snyder (1987) eqs 3-12, 14-1…14-18, "
                "15-1…15-11, 21-32…21-40 with analytic continuation e → i ε for prolate ellipsoids; DDatanhee2LoopOld (the rule before 9562c37) is kept in the model as a counter-model only"),
    technique="Lean 4 proofs over ℝ of the closed-form models, of Init of both conic classes, of the series recurrences (incl. HasSum limits from Mathlib's log series) and of the hemisphere/constructor bookkeeping for every kernel + binary64 execution of the same definitions against the implementation + binary128 closed-form oracle with computed condition numbers",
    assumptions=["the kernel models are hand transcriptions of LambertConformalConic.cpp / AlbersEqualArea.cpp; the tie to the code is their execution against the working tree on every run",
                 "Math::atand is odd and sincosd returns a valid sine/cosine pair with non-negative cosine on [-90, 90] (C16)",
                 "libm kernels (sinh, asinh, atanh, atan, exp, log, hypot) agree between Lean's Float and C++ to a few ulp",
                 "Snyder's formulas are the definitions of the projections; the origin of a two-parallel cone is the latitude of minimum (azimuthal) scale, as the headers state",
                 "outside terrestrial flattening the documented accuracy figures are scaled by kappa(f) = max(1, b/a, 1/(1−e²)) and by the computed condition number of the problem; "
                 "what exceeds that is reported (open findings F87, F89, F96, F98, F99, each with a class decided from the configuration alone)"],
)
