import hashlib as _hl11, os as _os11

_verif11 = _os11.path.dirname(_os11.path.dirname(_os11.path.dirname(_os11.path.abspath(__file__))))


def _conicproj_digest():
    # the harness compiles $GV_REPO/tools/ConicProj.cpp into itself: make the harness cache key depend on its text
    p = _os11.path.join(_os11.environ.get("GV_REPO", "/repo"), "tools", "ConicProj.cpp")
    try:
        return _hl11.sha256(open(p, "rb").read()).hexdigest()[:16]
    except OSError:
        return "0"


PROPS["C11"] = dict(
    harnesses=[dict(name="C11", procs_quick=2, procs_thorough=16,
                    extra=["-lquadmath", "-I" + _os11.path.join(_verif11, "harness", "C11_tools"), "-DGV_TOOLS_DIGEST=0x" + _conicproj_digest()])],
    gens=[],
    rule=("configurations: class ∈ {polar stereographic, Lambert conformal conic, Albers} × ellipsoid f ∈ {WGS84, 0, 0.1, −0.1, 1/150} (a ∈ {WGS84, 6.4e6, 1, "
          "6378388}) × scale k ∈ {1, 0.9996, 0.994, 0.5, 2, 1.25} × constructor stratum {one parallel; two equal; 1e-6…1e-12 apart; ±90 (polar/azimuthal); 0 "
          "(Mercator/cylindrical); symmetric about the equator; nearly symmetric; northern pair; southern pair (negative cone constant); mixed hemispheres; one "
          "parallel much nearer a pole than the other; sin/cos form; sin/cos with cos = 1e-4…1e-12; multiples of 10°} × optional SetScale(lat, k) (incl. the pole of a "
          "polar cone); the library's static instances and the header's example. Points: lat ∈ {±90, ±(90−1e-k), ±1e-k, the standard parallels and their neighbourhood, "
          "integers, uniform}, lon0 ∈ {0, ±180, 90, 360, 540, uniform}, lon − lon0 ∈ {0, ±1e-k, ±179.9…, multiples of 360 added, uniform}. Divided differences: x = y, "
          "1–4 ulp apart, 1e-3…1e-12 apart, opposite signs, uniform, 1e-8…1e3. Constructor domain: latitudes {±90, 0, 91, −90.0000001, 100, NaN, inf, uniform in ±95} "
          "× invalid a, f, k. non-trivial = finite result; distinct = distinct (op, leading argument bits)"),
    tolerances={
        "closed form x, y (binary128 oracle)": "4·(10 nm·(a/a_WGS84)·max(1, k) + 1e-14·ρ) [ρ = distance from the origin; 10 nm documented as true distance, scale error 7e-15 documented] "
                                               "+ for two distinct parallels the documented origin-latitude error 4·4.5e-14° (× e²/e²_WGS84 up to |f| = 1/120, × 1000 for f = ±0.1); only inside the "
                                               "documented domain dlat ≤ 160°, max|lat| ≤ 90 − min(2e-4, 2.2e-6(180−dlat), 6e-8 dlat²)",
        "k, gamma vs closed form": "1e-12 relative + 4·10 nm / (distance from the apex of the cone)",
        "Reverse∘Forward": "4·(10 nm + 1e-14·ρ·max(k, 1/k)) on the ellipsoid or 4·(10 nm + 1e-14·ρ) in the plane, where |θ| < 179° (an Albers cone with k²n > 1 overlaps itself)",
        "Forward∘Reverse": "the same in the plane + one ulp of 90° on the ground",
        "conformality / equal area (Richardson differencing of the implementation, h = 0.02°)": "1e-7 relative (a-priori error of the differencing), |lat| ≤ 85°",
        "prescribed scale (standard parallels, SetScale latitude), central scale": "1e-12 relative + 4·10 nm / apex distance",
        "constructor / SetScale / mirror / parallel-order equivalence": "2 × the position tolerance",
        "kernel models vs implementation (Init members, Forward, Reverse, SetScale, txif, tphif, DDatanhee, atanhxm1)": "32 ulp + 8 × the largest deviation of five runs of the "
                                   "model with hypot and log jiggled in the last bit by a hash (last-bit conditioning probe; nothing fitted); _drhomax on the implementation's own members; "
                                   "Reverse k additionally |ψ| ulp (k is an exponential of the isometric latitude); lat/lon 64 ulp of 90°/180°",
        "model vs implementation": "polar stereographic 64 ulp of ρ (+ the model's own sensitivity to 8 ulp of hypot in Reverse), taupf 32/(1−es²) ulp, tauf 64 ulp + sensitivity, divided "
                                   "differences 32 ulp, hemisphere wrapper and constructor domains exact",
    },
    level_text=("Theorems over ℝ about the definitions the driver executes (Model/Conic.lean, Model/ConicKernels.lean). Polar stereographic: Reverse∘Forward = id for every "
                "ellipsoid, scale, hemisphere, latitude and longitude and every inversion tauf of taupf (ps_inverse, ps_key_identity), pole case, k = ρ/(a m(φ)), SetScale, Newton "
                "fixed point. Divided differences: Dhyp, Dsn, Dlog1p, Dexp, Dsinh, Dasinh, Deatanhe (oblate, prolate), Datanhee (oblate) are (g x − g y)/(x − y). Hemisphere "
                "bookkeeping for every cone kernel: mirror law, Reverse∘Forward = id of the wrapper, canonical parallels; the three constructor forms accept the same sets. "
                "Cone kernels as coded: LCC — the coded x, y are ρ sin θ, ρ0 − ρ cos θ (cone_xy_closed); Forward's drho (both branches) is (scale/n)(e^{−nψ} − e^{−nψ0}) = ρ − ρ0 for "
                "ρ = a F tⁿ (lcc_drho_closed); k = k0 (scβ e^{−nψ})/(scβ0 e^{−nψ0}) (lcc_k_closed); with Init's _k0 the scale on the first standard parallel is k1 "
                "(lcc_scale_on_parallel1); the divided-difference cone constant num/den of the two-parallel Init is Snyder's (ln m1 − ln m2)/(ln t1 − ln t2) (lcc_n_snyder, oblate); "
                "Reverse recovers drho (cone_reverse_drho), dpsi (lcc_reverse_dpsi) and tan χ in both branches 2n ≤ 1 / 2n > 1 (lcc_reverse_tchiA/B); Reverse∘Forward = id on the kernel "
                "level given tauf∘taupf = id (lcc_reverse_forward_kernel: drho, dpsi, tan χ, tan φ; ψ ≠ ψ0, below the _drhomax clamp). Albers — txif is the authalic tangent "
                "Q/√(QZ² − Q²) (txif_closed, oblate); dq = qZ(sin ξ − sin ξ0) (alb_dq); n0·drho = a(√(m0² − n0 dq) − √m0²), i.e. drho = ρ − ρ0 for ρ = a√(C − n q)/n (alb_drho_closed); "
                "Reverse recovers drho, scxi0(sin ξ − sin ξ0) and tan ξ (alb_reverse_drho, alb_reverse_dsxia, alb_reverse_txi); Reverse∘Forward = id on the kernel level given "
                "tphif∘txif = id (alb_reverse_forward_kernel); SetScale keeps _k2 = _k0² and the k·(1/k) area bookkeeping (alb_setscale_k2, alb_area_factor, alb_setscale_scale). "
                "Correspondence (binary64 execution of the same definitions against the implementation, private members through the harness): everything of the first round plus "
                "LambertConformalConic::Init (all 13 members, every branch incl. the careful 1 − n evaluation), Forward, Reverse, SetScale; AlbersEqualArea::Init (10 members, the Newton "
                "loop), Forward, Reverse, SetScale, txif, tphif, DDatanhee (all three evaluation paths), atanhxm1. Partial — not theorems: the careful evaluation of 1 − n for n ≥ 1/4 "
                "(lccNcCareful) and Albers Init's s, 1 − s, C and Newton iteration are modelled and executed but not proved equal to their closed forms; the longitude recovery through "
                "atan2 in the kernel Reverse∘Forward theorems; prolate / spherical cases of lcc_n_snyder, txif_closed, Datanhee; convergence of the Newton iterations (tauf, tphif, "
                "Init); the series DDatanhee1/2 and atanhxm1 equal to their limits; floating-point error bounds. These stay covered by the binary128 closed-form oracle and the "
                "other oracles on the implementation."),
    level_note=("hand-written polymorphic model (RealLike) of PolarStereographic.cpp, Math::taupf/tauf/eatanhe, the divided-difference helpers of LambertConformalConic.hpp / AlbersEqualArea.hpp, the "
                "_sign bookkeeping and the constructor checks; LatFix, tand, sincosd, atand, atan2d, AngNormalize are kernels (C16); nothing is regenerated from the source (no tables): the tie to "
                "the code is the execution of the model against the working tree on every run; the oracle is independent code in IEEE binary128 (libquadmath) using Snyder (1987) eqs 3-12, 14-1…14-18, "
                "15-1…15-11, 21-32…21-40 with analytic continuation e → i ε for prolate ellipsoids"),
    technique="Lean 4 proofs over ℝ of the closed-form models and of the hemisphere/constructor bookkeeping for every kernel + binary64 execution of the same definitions against the implementation + binary128 closed-form oracle",
    assumptions=["the kernel models are hand transcriptions of LambertConformalConic.cpp / AlbersEqualArea.cpp; the tie to the code is their execution against the working tree on every run",
                 "Math::atand is odd and sincosd returns a valid sine/cosine pair with non-negative cosine on [-90, 90] (C16)",
                 "libm kernels (sinh, asinh, atanh, atan, exp, log, hypot) agree between Lean's Float and C++ to a few ulp",
                 "Snyder's formulas are the definitions of the projections; the origin of a two-parallel cone is the latitude of minimum (azimuthal) scale, as the headers state"],
)
