# C20: geoid heights (deepening round): overrides of the entry in tools/props.py
import hashlib as _hl, os as _os

_verif = _os.path.dirname(_os.path.dirname(_os.path.dirname(_os.path.abspath(__file__))))
_repo = _os.environ.get("GV_REPO", "/repo")


def _tool_digest():
    # the harness compiles $GV_REPO/tools/GeoidEval.cpp into itself: make the harness cache key depend on its text
    h = _hl.sha256()
    try:
        h.update(open(_os.path.join(_repo, "tools", "GeoidEval.cpp"), "rb").read())
    except OSError:
        h.update(b"missing")
    return h.hexdigest()[:16]


PROPS["C20"]["harnesses"] = [dict(name="C20", procs_quick=4, procs_thorough=16,
                                  extra=["-I" + _os.path.join(_verif, "harness", "C20_tools"), "-DGV_TOOLS_DIGEST=0x" + _tool_digest()],
                                  # scratch files (incl. sparse multi-GB rasters, deleted at once) live under the checkout, not in /tmp
                                  env={"GV_SCRATCH": _os.path.join(_verif, "_cache", "scratch", "C20")})]
PROPS["C20"]["gens"] = ["gen_geoid", "gen_geoidhdr", "gen_math"]
