# C20: geoid heights (deepening round): overrides of the entry in tools/props.py
import hashlib as _hl, os as _os

_verif = _os.path.dirname(_os.path.dirname(_os.path.dirname(_os.path.abspath(__file__))))
_repo = _os.environ.get("GV_REPO", "/repo")


def _tool_digest():
    # the harness compiles $GV_REPO/tools/GeoidEval.cpp into itself: make the harness cache key depend on its text
    h = _hl.sha256()
    try:
        h.update(open(_os.path.join(_repo, "tools", "GeoidEval.cpp"), "rb").read())
    except OSError:
        h.update(b"missing")
    return h.hexdigest()[:16]


PROPS["C20"]["harnesses"] = [dict(name="C20", procs_quick=4, procs_thorough=16,
                                  extra=["-I" + _os.path.join(_verif, "harness", "C20_tools"), "-DGV_TOOLS_DIGEST=0x" + _tool_digest()],
                                  # scratch files (incl. sparse multi-GB rasters, deleted at once) live under the checkout, not in /tmp
                                  env={"GV_SCRATCH": _os.path.join(_verif, "_cache", "scratch", "C20")})]
PROPS["C20"]["gens"] = ["gen_geoid", "gen_geoidhdr", "gen_math"]

PROPS["C20"]["rule"] = (
    "histories: synthetic PGM rasters written by the harness (even width 2..16 quick / ..80 thorough, odd height 3..9 / ..41, plus heights 27, 53, 59, 61, "
    "99, 105, 111, 117, 181, 187 whose latitude scale (h-1)/180 is inexact; random / ramp / zonal pixels, several offsets and scales), bilinear and cubic, "
    "plain and thread-safe objects; histories (<= 40 quick / <= 200 thorough ops) of operator(), ConvertHeight (both directions and NONE), CacheArea, "
    "CacheAll, CacheClear with Cache()/CacheWest/East/North/South read after every cache operation; positions at nodes, on cell edges, poles, lon "
    "0/+-180/+-360/540 +-ulp, repeated cells, neighbouring cells, polar caps next to +-180, NaN / inf and out-of-range latitudes; cache windows straddling "
    "lon 0, reaching or lying on the poles, degenerate (east = west, south = north), whole circle, larger than the raster (east = west + 720), south > north "
    "(clear), NaN / inf / 1e300 limits. Headers (byte level): well-formed files with harmless variations (comment lines and keys of every recognised and "
    "unrecognised kind, duplicated keys, tabs / several blanks / CR / LF, leading zeros, signs, 19 numeral forms for scale and 17 for offset incl. "
    "denormals and 23-digit integers), lenient forms (maxval -4294901761 / +65535 / 00065535, non-blank separator, CR LF, text after the size), each "
    "documented rule violated alone (magic 12 ways, offset / scale missing, zero, negative, underflowing, 24 unreadable numerals, odd / small / negative "
    "width, even / small height, 13 maxval values, 7 broken size lines, 10 length deltas, stray lines, no size line, truncation at every byte) and in "
    "pairs, 1-3 random byte edits (insert / delete / replace / duplicate / swap over digits, blanks, CR, LF, #, NUL, 0xff, signs, e, x), dimensions at and "
    "beyond 2^30 (refused: 2^30 + 2, 2^31 - 2, height 2^30 + 1) and INT_MAX, overflowing numerals (2147483647 ... 99999999999999999999999, values congruent to small ones modulo 2^32), headers announcing 2^31 "
    "... 2^36 data bytes with file lengths congruent to the right one modulo 2^16, 2^31, 2^32, 2^33, off by +-1, +-2, +-4096, +-2^32, halved, and the "
    "full-size raster as a sparse file (ftruncate; checked to be stored sparsely; unlinked at once); 5 data fill patterns (zeros, digits, bytes, blanks, "
    "text). Large rasters: well-formed sparse files of 4-9 GiB (dimensions up to 2^30) with pixels poked at byte offsets around 2^31, 2^32, 2^33 and the end. Default path / "
    "name: the three environment variables unset / empty / set; lookup through GEOGRAPHICLIB_GEOID_PATH and GEOGRAPHICLIB_DATA, missing file, missing "
    "directory. GeoidEval in-process: 7 option sets (plain, --msltohae, --haetomsl, -w, -z 31n, --comment-delimiter, --input-string) x cache options "
    "(none, -a, -c, -v) on 0-6 lines mixing decimal / DMS / hemisphere forms, poles, +-180 and 17 malformed lines, with and without a final newline. "
    "non-trivial = finite height returned / file accepted; distinct = distinct (op, leading argument bits)")
PROPS["C20"]["tolerances"] = {
    "history / cache-mode independence": "bit-for-bit (implementation vs fresh and thread-safe objects)",
    "height vs model": "bit-equal to the F64 model or within 2^-50*(|offset|+65535*scale)",
    "header accept/reject, offset, scale, MaxError, RMSError, width, height, datastart, 1/resolutions, Description, DateTime": "exact (bit for bit / byte for byte); the exception text is compared too (a different text with the same verdict is counted as skipped, not as an alarm)",
    "Cache(), CacheWest/East/North/South": "flag exact; extent bit-equal to the model or within 2^-50*360; oracle: contains the requested rectangle",
    "ConvertHeight": "model: 2^-50*(|offset|+65535*scale+|h|); inverse: 4 ulp of |h|+|N|",
    "large rasters": "1e-5*scale*65535 (the rounding of 90 - iy*180/(h-1) moves the query by <= 2^-22 cell)",
    "GeoidEval": "output lines equal Utility::str(object height, 4) as strings; conversions within half a unit of the 4th decimal; identical text with and without -a / -c / -v",
    "DefaultGeoidPath/Name, lookup": "exact strings"}
PROPS["C20"]["level_text"] = (
    "Theorems. (1) HISTORY INDEPENDENCE, NO HYPOTHESIS LEFT: api_history_independent / api_cache_mode_independent - for every raster shape the "
    "constructor accepts (FileOK: even width 2..2^30, height 3..2^30), every sequence of operator(), CacheArea(south, west, north, east) with ARBITRARY "
    "binary64 limits, CacheAll, CacheClear, from every state satisfying the invariant (fresh object initSt_inv, thread-safe object threadsafeSt_inv), every "
    "height of the executed binary64 state machine equals the state-free heightSpec as the same term (hence the same bits). This rests on step_ok / "
    "run_eq_spec (induction over histories; area-cache and cell-cache invariants), concrete_envOK (the float cell column stays in [0, w)), and the new "
    "cacheWindow_windowOK (Proofs/GeoidWindow.lean cacheWindow_ok): the window hypothesis WindowOK is discharged for the executed model of CacheArea's "
    "float->index arithmetic (LatFix, AngNormalize, east += 360, two products with the rounded 1/resolutions, floor, clamps, the cubic margin, the "
    "whole-circle test and the +-w shift): 0 <= xoffset < w, 0 < xsize <= w, rows in [-1, h], for all limits incl. NaN / inf (proved from the monotonicity "
    "of correct rounding: fl_mul_mono, fl_mul_bounds, eastOf_val, windowOfIdx_ok). fillCode_eq_fill: the two sequential reads per cache row of CacheArea AS "
    "CODED (xs1 = min(w - iw1, xsize) pixels from column iw1 of the reflected row with the half-turn shift beyond a pole, the rest from column 0) store "
    "the file's pixel at the wrapped / reflected position; the state machine now executes this fillCode. (2) LOCATION: concrete_loc_in_raster - for every "
    "binary64 position, the poles included, the located cell has 0 <= ix < w and 0 <= iy <= h-2, exactly the cells of the raster (locF_iy_range: the row "
    "clamp at both ends, repair 63168e3 of finding F72; north_row_needs_clamp: on a raster of height 59 the unclamped row of latitude +90 is -30 < -29). "
    "(3) CONSTRUCTOR (byte-level model of getline / >> string / "
    ">> double (libstdc++ num_get + strtod) / >> int / >> unsigned / tellg / eofbit, Model/GeoidHeader.lean): header_accept_iff (accepted <=> the scanner "
    "finds magic, comment block, size and maxval, then maxval = 65535, offset set, scale neither 0 nor negative, width and height >= 2, width even, height "
    "odd, both at most 2^30 (repair f4ec5a8 of finding F73), stream position known, length = datastart + 2wh as coded), header_accept_iff_nat (for every file with less than 2^62 header bytes the 64-bit "
    "test is the equation in unbounded naturals: no length congruent modulo 2^32 or 2^64 passes; lengthOKCoded_iff), canonical_file_accept_iff (for EVERY even width in [2, 2^31), EVERY odd height in [3, 2^31), every data section "
    "and every length below 2^64 the canonical file P5 / # Offset -108 / # Scale 0.003 / w h / 65535 / data is rejected with 'Raster size too large' when "
    "a dimension exceeds 2^30, otherwise accepted exactly when its length is header + 2wh in unbounded arithmetic, with the announced fields, and "
    "otherwise rejected with 'File has the wrong length': the seeded 32-bit overflow of the length test as a theorem for all sizes; printed numbers are read back, scanDigits_dec), header_reject_iff / "
    "header_reject_classes (which exception: the scanner's, or the first violated test in source order - 9 iffs incl. the new class tooLarge), accepted_shape, accepted_fileOK, "
    "header_structure (for a file made of magic line, a block of empty / # lines, a size line and the rest the scanner is the fold of the comment lines "
    "followed by the size and maxval extraction), last_occurrence_counts (offset and scale are those of the LAST line that sets them; an unreadable value "
    "anywhere is an error), header_constants_match_source (magic, the 8 keys, defaults, pixel size / max and the 15 exception texts in source order are "
    "those re-extracted from Geoid.cpp on this run). (4) VALIDATION => IN-FILE READS: accepted_reads_in_file / accepted_height_reads_in_file (for an "
    "accepted file and ANY binary64 position every pixel that the bilinear or cubic stencil addresses after longitude wrap and pole reflection has "
    "datastart <= filepos, filepos + 1 < length, filepos < 2^63) and accepted_cache_reads_in_file (the same for every pixel CacheArea reads, for arbitrary "
    "limits; in particular the first sequential read of a row does not run into the next raster row), via stencil_in_bounds, "
    "fillIdx_in_raster, pixel_in_file. (4b) INT ARITHMETIC (finding F73 as a theorem): accepted_int_arithmetic - for every accepted shape every value of type int that Geoid::height "
    "(incl. the conversions int(floor(fx)), int(floor(fy)) for every non-NaN position), Geoid::rawval (every stencil argument of every cell, every cache "
    "window CacheArea can set), Geoid::CacheArea (arbitrary binary64 limits: the four int(floor(.)) conversions, the window arithmetic, the fill loop of "
    "every cached row) and the cache inspectors compute lies in [-2^31, 2^31 - 1] (Proofs/GeoidWindow.lean cacheFloors_facts, heightFloors_facts with the "
    "relative rounding error of w/360: floor(east*r) <= 3w/2 + 1, floor(east*r) - floor(west*r) <= 3w/2 + 2; heightInts_in_range, rawvalInts_in_range, "
    "cacheAreaInts_in_range, fillInts_in_range, getterInts_in_range). (5) INTERPOLATION over Q on the SAME generic formulas the driver executes at binary64 (interpBilinearG, prepCubicG, "
    "interpCubicG, rawSpec, gather): bilinear_nodes (all four corners reproduce offset + scale*pixel), bilinear_edges_linear (all four edges), "
    "bilinear_continuous (pieces of neighbouring cells agree on the common edge, in longitude and latitude), rawSpec_periodic / bilinear_periodic / "
    "bilinear_seam (longitude periodicity; column w-1 joins column 0), convert_height_inverse; cubic_interior_exact (if the 12 stencil values are samples of "
    "ANY cubic polynomial the executed formula with table c3 returns that polynomial at every (fx, fy)), cubic_north_exact / cubic_south_exact (tables c3n / "
    "c3s reproduce exactly the 7-dimensional spaces of cubics that are constant along the pole row y = 0 resp. y = 1), cubic_pole_independent_of_lon (the "
    "cubic height at a pole does not depend on the longitude within the cell, for ANY 12 pixel values), table certificates cubic_reproduces, "
    "cubic_normal_equations, cubic_polar_normal_equations (the polar tables solve the weighted normal equations of the constrained fits), polar_tables. "
    "CORRESPONDENCE (every run): the state machine (apiStep) and the header model are executed by gvdriver on the same histories / the same bytes and "
    "file length as the implementation (heights, cache flag and extent, ConvertHeight, accept / reject, every header field bit for bit, exception text); "
    "the window and location facts are checked again per call. ORACLES on the implementation (failing-input search, independent of the model): bit-for-bit "
    "fresh / thread-safe / history objects, longitude period, NaN, bilinear range, no file access inside the reported cache extent, extent contains the "
    "request, ConvertHeight inverse, well-formed-by-construction files accepted, rule-violating files rejected, accepted => raster inside the file in "
    "128-bit arithmetic and readable everywhere, plain and thread-safe constructors agree, sparse > 4 GiB rasters accepted and read at the right offsets, "
    "GeoidEval line contract / heights / cache options / mutually inverse conversions. NOT PROVED: binary64 error bounds of the interpolation (the Q "
    "theorems are exact-arithmetic statements about the formulas; heights are compared with the F64 model at 2^-50); that libstdc++ iostreams behave as modelled (validated by the exact correspondence on every run); GeoidEval is "
    "oracle-only; heightInts / rawvalInts / cacheAreaInts / fillInts / getterInts are a hand transcription of the int subexpressions of the code (anchored "
    "in the executed windowOfIdx, evaluated by the driver on every query and every CacheArea), not an extraction.")
PROPS["C20"]["level_note"] = (
    "cubic tables, table sizes, pixel_max, the constants of the header parser (magic, keys, defaults, exception texts in order, pixel size) and Math::qd/hd/td "
    "are regenerated from Geoid.cpp / Geoid.hpp / Math.hpp each run; hand-written models of the constructor (byte level), height / rawval / CacheArea / "
    "inspectors / ConvertHeight; tools/GeoidEval.cpp is compiled from the current tree into the harness and run in-process; rasters of more than 64 KiB "
    "of data are sparse files under _cache/scratch/C20 (skipped, and counted, where the file system does not store them sparsely)")
PROPS["C20"]["technique"] = ("Lean 4 proof: induction over operation histories (refinement to a state-free spec), rational error analysis of the executed binary64 "
                             "index arithmetic (IsRN / monotone rounding), byte-level parser model with iff characterisations, ring / decide +kernel over the "
                             "re-extracted tables + exact model/implementation correspondence")
PROPS["C20"]["assumptions"] = [
    "libstdc++ getline / operator>> (string, double via strtod, int, unsigned) / tellg / eofbit behave as modelled in Model/GeoidHeader.lean (validated bit for bit on every run)",
    "file lengths below 2^63 and headers below 2^62 bytes (hypotheses of the in-file theorems; any real file)",
    "findings F72 (latitude +90 located in row -1) and F73 (int overflow for dimensions above 2^30) are repaired in the library (63168e3, f4ec5a8); the model follows the repaired code and a regression of either alarms (thread-safe / plain objects at the poles on raster heights 59, 111, 117, 187; probe op geoidhuge)"]
