# C18: grid codes — deepening round overrides (the base entry is in tools/props.py)
PROPS["C18"]["gens"] = ["gen_gridcodes", "gen_math", "gen_osgbconst"]
