# C18: grid codes (Geohash, GARS, Georef, OSGB) — deepening round overrides (the base entry is in tools/props.py)
PROPS["C18"]["gens"] = ["gen_gridcodes", "gen_math", "gen_osgbconst"]

PROPS["C18"]["rule"] = (
    "positions: cell edges of each scheme at random level ±0..3 ulp, poles (lat = ±90 exactly, every precision), lon ±180/±540/180+360k exactly/1e17/±inf, "
    "uniform; OSGB: square edges at every precision ±0..3 ulp, the range limits and one ulp inside, tile −1 (−5·10^4 < x < 0: rounded offset), negative "
    "coordinates from −2^−30 down to the subnormals and the carry threshold −2^−37 ± 2 ulp, small coordinates of tile 0 at decimal edges (digits beyond 1 m); "
    "all precisions incl. out-of-range (clamped / rejected); decoder inputs: encoder outputs (random case), single-character mutations (incl. NUL, space, "
    "high-bit bytes, I/O), insert/delete, leading/trailing junk (every white-space character, NUL, punctuation, letters, 0xa0, 0xff), codes of maximal "
    "precision extended by 0..4 digits (over-maximum length), OSGB with white space anywhere and 'IN' prefixes, random alphabet strings up to 30 characters, "
    "INVALID/NaN forms; helper functions: every length −3..22 / precision −3..14, requested resolutions exactly at / one-two ulp around every resolution, "
    "random, 0, ±inf, NaN, negative; OSGB::Forward/Reverse over Great Britain, the whole globe, the true origin, poles, NaN; the OSGB constants once per run. "
    "thorough: all GARS 30' cells, all Georef degree cells, all 26×26 letter pairs through the OSGB and Georef decoders, all 625 OSGB 100 km squares. "
    "non-trivial = accepted (no exception); distinct = distinct (op, leading bits of arguments)")

PROPS["C18"]["tolerances"] = {
    "forward strings": "equal to the code of the exact containing cell (exact dyadic arithmetic in Lean); a difference is reported under one of the proved "
                       "classes: F2-sliver (one rounded product/quotient reaches the next integer), OSGB-offset-sliver (finding F75; tile −1: x + 10^5 rounded by "
                       "≤ 2^−37 m across an edge, incl. the carry into tile 0 for −2^−37 ≤ x < 0); anything else — in particular a coded square that is not a "
                       "neighbour of the containing one (the repaired finding F74) — is a violation",
    "reverse values": "bit-equal to the F64 model or within 2^−48 (OSGB beyond 1 m: 2^−46) relative of the exact centre/corner; OSGB down to 1 m: exact",
    "helper functions (resolutions, lengths, precisions, DecimalPrecision)": "exact (bit-equal / equal integers)",
    "OSGB::Forward/Reverse": "x, y bit-equal to projection output + FalseEasting / + north offset (binary64 additions); gamma, k bit-equal to the projection's; "
                             "Reverse∘Forward within 20 nm (4 × the documented 5 nm) within 35° of the central meridian",
    "OSGB constants": "a, F0 within 2 ulp of the defining expressions in long double and equal to the published decimals (6377563.396 m, 0.9996012717) to "
                      "one unit of the last digit; flattening, origin, false origin exact; worked example of the OS guide within 6 mm",
}

PROPS["C18"]["level_text"] = (
    "Theorems over the executed models (Props/C18.lean, 101 theorems; constants and alphabets from Gen/Grid, Gen/OSGBC, re-extracted each run). "
    "ALL FOUR CODECS, integer level, every cell / precision / string: table look-ups invert the tables and never match NUL (lookup_nul, *_lookup, tables_wf); "
    "decode∘encode (gars_decode_encode, geohash_decode_encode/46, georef_decode_encode_tile/_degree/_long, osgb_decode_encode); prefix law across ALL precisions "
    "(gars_prefix, geohash_prefix, georef_prefix_coarse + georef_prefix, osgb_prefix). "
    "SCALE STEP (the floating part in front of the codec, exact binary64 model, rounding theory Proofs/Round53, RoundQ, DivTo): gars/georef/geohash_scale_contains "
    "(coded cell = exact cell, or the next one exactly when the rounded product/quotient is that integer: class F2), *_cell_contains (decoded cell of the exact code "
    "contains the prepared point, poles and lon = ±180 included). "
    "OSGB IN FULL: osgb_checkCoords_iff (accepted ⇔ NaN or finite in [−1000 km, 1500 km) × [−500 km, 2000 km)), osgb_gridReference_eq (range check, 0 ≤ prec ≤ 11, "
    "NaN ↦ INVALID, else encodeInt ∘ scaleCoord), osgb_scale_spec: for every finite coordinate and every precision the 100 km index ⌊x/10^5⌋ is computed exactly "
    "(division by an integer followed by floor has no sliver: divFloor_nosliver) except when the quotient underflows to −0 (class U, |x| ≤ 10^5·2^−1075: adjoining "
    "square); the in-tile offset x − 10^5·n is exact in every tile except for −50 km < x < 0 in tile −1, where it is the correctly rounded sum (IsRN, error ≤ 2^−37 m: "
    "finding F75); when that sum rounds to the tile size itself (−2^−37 ≤ x < 0) the carry of the repaired code (finding F74, fixed by f3f841a) moves the point to the "
    "start of tile 0 (osgb_offset_wrap: for every −2^−37 ≤ x < 0 the result is tile 0, digits 0 — the adjoining square, at most 2^−37 m away); digits down to 1 m are "
    "exact floors of that offset (no rounding effect at all), digits beyond 1 m come from ⌊t'⌋ (exact), t' − ⌊t'⌋ (exact) and ONE rounded multiplication (CellRelQ: class F2). "
    "Corollary osgb_contains_le5: for prec ≤ 5, outside those classes, the coded square is the square containing the position. "
    "ReadGridReference: osgb_accept_iff (accepted ⇔ white space removed: even length in [2, 24], two letters A–Z without I in either case, then digits only), "
    "osgb_reverse_shape ('IN…' ↦ NaN, else decoder + accumulation), osgb_case_insensitive, osgb_reencode (GridReference of the decoded square = input upper-cased, "
    "white space removed; integer level), osgb_decoded_range. OSGB36 constants: osgb_constants_documented, osgb_flattening_value (= 7767/2324857, 1/f = 299.32496459…), "
    "osgb_false_origin_on_grid, osgb_ranges (Gen obligations). "
    "HELPERS: geohash_resolution_val/_antitone/_is_cell (resolution = extent of the cells of geohash_cell_contains), geohash_length_is_least (GeohashLength(res) is the "
    "least length whose longitude resolution ≤ |res|, every res incl. NaN/0/∞), geohash_length_of_resolution, geohash_decimal_precision (= −⌊log10⌋, integers); "
    "gars_resolution, gars_precision_is_least, gars_precision_resolution; georef_resolution, georef_precision_resolution, georef_precision_in_range. "
    "DECODER VALUES (centerp): geohash_reverse_exact (every accepted string, every length, centre and corner: no rounding at all; with geohash_decode_bounds, "
    "geohash_accept_iff), gars_reverse_val / georef_reverse_val (one correctly rounded division; exact for GARS precisions 0, 1 and Georef tiles and degree cells). "
    "Correspondence only (every run, exact comparison in Lean): every implementation output vs the model and vs the exact containing cell; OSGB decoder values "
    "(required exact down to 1 m, 2^−46 beyond); helper functions bit for bit; OSGB::Forward/Reverse = projection ± false origin bit for bit. "
    "END TO END DOWN TO 1 m: osgb_reverse_exact_le5 (for every accepted string of precision ≤ 5 the binary64 corner and centre returned by ReadGridReference are "
    "exactly 10^5·xh + X·10^(5−p) (+ 10^(5−p)/2): the accumulation loop involves no rounding) and osgb_reencode_le5 (GridReference(ReadGridReference(s, centerp = true), "
    "prec) = s upper-cased with white space removed, through the floating values: range check passes, tile index, offset and digits of the centre are exact). "
    "NOT PROVED: for precisions 6..11 the value of ReadGridReference (six further rounded divisions/products/sums; checked on the implementation against the exact "
    "rational within 2^−46 relative) and the re-encode law through those values (proved on the integer level, osgb_reencode; checked by the harness oracle); "
    "acceptance characterisations of GARS/Georef Reverse as iff-theorems (decode∘encode + model correspondence only); the accuracy of the transverse Mercator "
    "projection itself (property C06).")

PROPS["C18"]["level_note"] = (
    "alphabets, integer constants of all four classes and the defining integers of the OSGB36 constants regenerated from the sources each run (Gen/Grid, Gen/OSGBC); "
    "hand-written models of Forward/Reverse/GridReference, of the resolution/precision helpers and of the OSGB false-origin wrapper; pow(10, k) for 0 ≤ k ≤ 11 and "
    "integer→double conversions assumed exact (they are, for the ranges used); Geohash::DecimalPrecision goes through log(): modelled in exact integer arithmetic "
    "(no resolution is within 10% of a power of ten)")

PROPS["C18"]["technique"] = ("Lean 4 proof of the integer codecs and of the floating scale steps over an exact binary64 model + exact-arithmetic correspondence of "
                             "every encoder/decoder/helper output against the implementation")

PROPS["C18"]["assumptions"] = ["glibc pow(10, k), 0 ≤ k ≤ 11, is exact", "glibc log() is accurate to a few ulp (Geohash::DecimalPrecision only)",
                               "isspace() in the C locale: space and \\t \\n \\v \\f \\r"]
