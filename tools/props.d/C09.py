PROPS["C09"] = dict(
    harnesses=[dict(name="C09", procs_quick=2, procs_thorough=16)],
    gens=["gen_math", "gen_rhumbarea", "gen_auxseries"],
    rule=("ellipsoids f in {WGS84 (x2), 0, +-0.001, +-0.01, 1/150 (a = 1), -1/298.26} series and exact, +-0.1 exact only. Inverse: uniform; latitudes 1e-12..1 m "
          "apart (also 1..4 ulp apart) with up to 179 deg of longitude; both latitudes within 1e-12..1e-6 deg of the equator / of a pole; poles; lon2 - lon1 = "
          "+-180 exactly (+360k); same parallel; same / nearly same meridian; lat2 = -lat1(1 + 1e-9 u); short lines 1e-9..1 deg; longitudes incl. +-180, 360, "
          "540, 720, up to 1e15. Direct: uniform (lengths of either sign, log-uniform down to 1e-9); azimuth 90 +- 10^-k and 0/180 +- 10^-k (k = 1..14) and exact "
          "cardinals, unreduced azimuths (+-360k, 450, -270); courses overshooting a pole by 0.02..9 quarter meridians (|mu2| up to 900 deg) with either sign of "
          "s12; end points within 1e-12..1e-3 (relative) of a pole on either side; east-west courses of up to 20 circuits; with and without LONG_UNROLL. Kernels: "
          "Dsn, Datan, Dasinh, Dh, Dlam, Dp0Dpsi, Dsin, h at equal / 1-3 ulp apart / relative 1e-15..0.1 apart / opposite-sign / independent arguments over tan of "
          "uniform angles, 1e-12..1, 1..1e17, 0, +-1, 1e+-200, +-inf; DParametric, DIsometric, DRectifying on the latitude strata above; DClenshaw (sine and cosine, divided and plain) on "
          "random coefficient lists of length 0..8 with equal / 1e-12..1 apart / mirrored / independent angles. non-trivial = finite result; "
          "distinct = distinct (op, leading argument bits)"),
    tolerances={
        "s12, position (lat2/lon2 as metres north/east), azimuth (as displacement s12*d(azi))": "4 x 10 nm ('the error is about 10 nanometers', RhumbSolve(1) ACCURACY; doc page rhumb) x a/a_WGS84 x max(1, |s12|/10^7 m), never below 4 ulp of the output; direct problem: + 4 ulp(90 deg) of latitude propagated to the longitude (d lam12/d phi = lam12 tan phi); series solver: + 100|n|^7 relative (first neglected order of the 6th-order auxiliary-latitude series)",
        "S12": "4 x 0.11 m^2 (Planimeter(1) ACCURACY, all perimeters) x (a/a_WGS84)^2 x max(1, |lam12|/90deg) + position tolerance x a|lam12| (+ c2 x position tolerance / parallel radius for the direct problem)",
        "beyond the pole": "lat2 within the length tolerance x (meridional run / quarter meridian) of the latitude reached on the meridian circle; lon2 and S12 NaN exactly",
        "divided-difference kernels vs long double": "(32 + 4 cond) ulp where the defining quotient is conditioned < 1e3 in 80-bit arithmetic, else left to the Lean model; DParametric/DIsometric 64 ulp vs cancellation-free differences; DRectifying 64 ulp + length tolerance / (R_mu (pi cos(phi) + |dphi|))",
        "Lean formula models vs implementation (binary64)": "1e-13 relative (1e-12 for DParametric/DIsometric); subtracting branches: 64 ulp x conditioning of the subtraction; s12 16 ulp, azi12 2e-13 deg, S12 8 ulp, lon2 4 ulp of |lon1|+|lam12|+180, lat2 8 ulp(90)",
        "AngDiff / AngNormalize / pole reduction": "exact (dyadic arithmetic in Lean)",
        "series vs exact, |f| <= 0.01": "sum of both tolerances",
    },
    level_text=("Theorems over the reals about the formula models that the driver executes in binary64 against the private DAuxLatitude functions: Dsn, Datan, Dasinh, Dh "
                "are the divided differences of sn, atan, asinh, h in every branch (with the confluent value at x = y), Dlam and Dp0Dpsi are the divided differences of "
                "asinh(tan chi) w.r.t. chi and of asinh(h) w.r.t. asinh; DClenshaw (matrix recurrence) times Delta equals the difference of the two Clenshaw sums, for every "
                "coefficient list; (dclenshaw_dd, dclenshaw_diff, dclen_pair); the two-step beyond-the-pole reduction of GenPosition returns, for every real mu2 and every normaliser satisfying the AngNormalize "
                "contract, the reflected rectifying latitude in [-90, 90] with the same sine, while the one-step form does not (counter-example mu2 = 300); the inverse "
                "wrapper returns a course whose azimuth satisfies sin(azi) psi12 = cos(azi) lam12 with the right signs, s12 cos(azi) = R dmu and |lon12| <= 180 from the "
                "AngDiff contract, sign of a +-180 tie as coded (finding F4). Table certificate rhumb_area_table (decide +kernel, re-checked against the source each run): the 21 AreaCoeffs entries "
                "re-extracted from Rhumb.cpp satisfy the defining relation p'(beta) = (1-f)(sin xi - sin chi)/cos phi of the rhumb area series modulo n^7, with phi, chi, xi "
                "the auxiliary-latitude series of AuxLatitude.cpp certified by C15 (this determines every entry). Correspondence: formula models vs private kernels; GenInverse / "
                "GenPosition decision logic executed exactly over the F64 softfloat around the implementation's own kernel values. Oracles on the implementation in 80-bit arithmetic, "
                "independent of the library: s12, azi12, lat2, lon2, S12 vs meridian-arc quadrature, closed-form isometric and authalic latitudes with cancellation-free differences; "
                "Direct o Inverse, Inverse o Direct, RhumbLine == Direct, series vs exact, east-going ties, beyond-the-pole latitude and NaNs. Partial: no theorem bounds the "
                "floating-point error of the solvers; DRectifying/DE (elliptic integrals), AuxLatitude::Convert and the DST fit of the exact area are kernels covered by the oracle only."),
    level_note=("hand-written polymorphic (RealLike) model of DAuxLatitude's helpers and DClenshaw, F64 model of the GenPosition/GenInverse wrappers; AngDiff/AngNormalize are the exact "
                "F64 models of C16; qd/hd/td and the AreaCoeffs table regenerated from the sources each run; oracle in x87 long double with 24-point Gauss-Legendre panels"),
    technique="Lean 4 proofs over R of the divided-difference identities and of the pole-wrap / inverse wrapper logic + binary64 / exact-softfloat execution of the same definitions against the implementation + independent quadrature oracle",
    assumptions=["libm kernels (asinh, atan, atan2, hypot, sin, cos) agree between Lean's Float and C++ to a few ulp",
                 "the AngNormalize/AngDiff contract (range and congruence mod 360) is decided exactly per sampled input, not proved for all doubles (C16)",
                 "order-7 coefficients of the auxiliary-latitude series are bounded by 100 (series-mode tolerance at |f| = 0.01)"],
)

# ---- deepening round (G09) -------------------------------------------------------------------------------------------
import hashlib as _hl, os as _os
_verif = _os.path.dirname(_os.path.dirname(_os.path.dirname(_os.path.abspath(__file__))))
_repo = _os.environ.get("GV_REPO", "/repo")


def _tool_digest():
    # harness/C09.cpp compiles $GV_REPO/tools/RhumbSolve.cpp into itself (observe_at: tools/RhumbSolve): the harness cache key must
    # depend on its text (the generic key covers only the library and the harness sources)
    try:
        return _hl.sha256(open(_os.path.join(_repo, "tools", "RhumbSolve.cpp"), "rb").read()).hexdigest()[:16]
    except OSError:
        return "0"


_P = PROPS["C09"]
_P["harnesses"] = [dict(name="C09", procs_quick=2, procs_thorough=16,
                        extra=["-I" + _os.path.join(_verif, "harness", "C09_tools"), "-DGV_TOOLS_DIGEST=0x" + _tool_digest()])]
