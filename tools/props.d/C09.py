PROPS["C09"] = dict(
    harnesses=[dict(name="C09", procs_quick=2, procs_thorough=16)],
    gens=["gen_math", "gen_rhumbarea", "gen_auxseries"],
    rule=("ellipsoids f in {WGS84 (x2), 0, +-0.001, +-0.01, 1/150 (a = 1), -1/298.26} series and exact, +-0.1 exact only. Inverse: uniform; latitudes 1e-12..1 m "
          "apart (also 1..4 ulp apart) with up to 179 deg of longitude; both latitudes within 1e-12..1e-6 deg of the equator / of a pole; poles; lon2 - lon1 = "
          "+-180 exactly (+360k); same parallel; same / nearly same meridian; lat2 = -lat1(1 + 1e-9 u); short lines 1e-9..1 deg; longitudes incl. +-180, 360, "
          "540, 720, up to 1e15. Direct: uniform (lengths of either sign, log-uniform down to 1e-9); azimuth 90 +- 10^-k and 0/180 +- 10^-k (k = 1..14) and exact "
          "cardinals, unreduced azimuths (+-360k, 450, -270); courses overshooting a pole by 0.02..9 quarter meridians (|mu2| up to 900 deg) with either sign of "
          "s12; end points within 1e-12..1e-3 (relative) of a pole on either side; east-west courses of up to 20 circuits; with and without LONG_UNROLL. Kernels: "
          "Dsn, Datan, Dasinh, Dh, Dlam, Dp0Dpsi, Dsin, h at equal / 1-3 ulp apart / relative 1e-15..0.1 apart / opposite-sign / independent arguments over tan of "
          "uniform angles, 1e-12..1, 1..1e17, 0, +-1, 1e+-200, +-inf; DParametric, DIsometric, DRectifying on the latitude strata above; DClenshaw (sine and cosine, divided and plain) on "
          "random coefficient lists of length 0..8 with equal / 1e-12..1 apart / mirrored / independent angles. non-trivial = finite result; "
          "distinct = distinct (op, leading argument bits)"),
    tolerances={
        "s12, position (lat2/lon2 as metres north/east), azimuth (as displacement s12*d(azi))": "4 x 10 nm ('the error is about 10 nanometers', RhumbSolve(1) ACCURACY; doc page rhumb) x a/a_WGS84 x max(1, |s12|/10^7 m), never below 4 ulp of the output; direct problem: + 4 ulp(90 deg) of latitude propagated to the longitude (d lam12/d phi = lam12 tan phi); series solver: + 100|n|^7 relative (first neglected order of the 6th-order auxiliary-latitude series)",
        "S12": "4 x 0.11 m^2 (Planimeter(1) ACCURACY, all perimeters) x (a/a_WGS84)^2 x max(1, |lam12|/90deg) + position tolerance x a|lam12| (+ c2 x position tolerance / parallel radius for the direct problem)",
        "beyond the pole": "lat2 within the length tolerance x (meridional run / quarter meridian) of the latitude reached on the meridian circle; lon2 and S12 NaN exactly",
        "divided-difference kernels vs long double": "(32 + 4 cond) ulp where the defining quotient is conditioned < 1e3 in 80-bit arithmetic, else left to the Lean model; DParametric/DIsometric 64 ulp vs cancellation-free differences; DRectifying 64 ulp + length tolerance / (R_mu (pi cos(phi) + |dphi|))",
        "Lean formula models vs implementation (binary64)": "1e-13 relative (1e-12 for DParametric/DIsometric); subtracting branches: 64 ulp x conditioning of the subtraction; s12 16 ulp, azi12 2e-13 deg, S12 8 ulp, lon2 4 ulp of |lon1|+|lam12|+180, lat2 8 ulp(90)",
        "AngDiff / AngNormalize / pole reduction": "exact (dyadic arithmetic in Lean)",
        "series vs exact, |f| <= 0.01": "sum of both tolerances",
    },
    level_text=("Theorems over the reals about the formula models that the driver executes in binary64 against the private DAuxLatitude functions: Dsn, Datan, Dasinh, Dh "
                "are the divided differences of sn, atan, asinh, h in every branch (with the confluent value at x = y), Dlam and Dp0Dpsi are the divided differences of "
                "asinh(tan chi) w.r.t. chi and of asinh(h) w.r.t. asinh; DClenshaw (matrix recurrence) times Delta equals the difference of the two Clenshaw sums, for every "
                "coefficient list; (dclenshaw_dd, dclenshaw_diff, dclen_pair); the two-step beyond-the-pole reduction of GenPosition returns, for every real mu2 and every normaliser satisfying the AngNormalize "
                "contract, the reflected rectifying latitude in [-90, 90] with the same sine, while the one-step form does not (counter-example mu2 = 300); the inverse "
                "wrapper returns a course whose azimuth satisfies sin(azi) psi12 = cos(azi) lam12 with the right signs, s12 cos(azi) = R dmu and |lon12| <= 180 from the "
                "AngDiff contract, sign of a +-180 tie as coded (finding F4). Table certificate rhumb_area_table (decide +kernel, re-checked against the source each run): the 21 AreaCoeffs entries "
                "re-extracted from Rhumb.cpp satisfy the defining relation p'(beta) = (1-f)(sin xi - sin chi)/cos phi of the rhumb area series modulo n^7, with phi, chi, xi "
                "the auxiliary-latitude series of AuxLatitude.cpp certified by C15 (this determines every entry). Correspondence: formula models vs private kernels; GenInverse / "
                "GenPosition decision logic executed exactly over the F64 softfloat around the implementation's own kernel values. Oracles on the implementation in 80-bit arithmetic, "
                "independent of the library: s12, azi12, lat2, lon2, S12 vs meridian-arc quadrature, closed-form isometric and authalic latitudes with cancellation-free differences; "
                "Direct o Inverse, Inverse o Direct, RhumbLine == Direct, series vs exact, east-going ties, beyond-the-pole latitude and NaNs. Partial: no theorem bounds the "
                "floating-point error of the solvers; DRectifying/DE (elliptic integrals), AuxLatitude::Convert and the DST fit of the exact area are kernels covered by the oracle only."),
    level_note=("hand-written polymorphic (RealLike) model of DAuxLatitude's helpers and DClenshaw, F64 model of the GenPosition/GenInverse wrappers; AngDiff/AngNormalize are the exact "
                "F64 models of C16; qd/hd/td and the AreaCoeffs table regenerated from the sources each run; oracle in x87 long double with 24-point Gauss-Legendre panels"),
    technique="Lean 4 proofs over R of the divided-difference identities and of the pole-wrap / inverse wrapper logic + binary64 / exact-softfloat execution of the same definitions against the implementation + independent quadrature oracle",
    assumptions=["libm kernels (asinh, atan, atan2, hypot, sin, cos) agree between Lean's Float and C++ to a few ulp",
                 "the AngNormalize/AngDiff contract (range and congruence mod 360) is decided exactly per sampled input, not proved for all doubles (C16)",
                 "order-7 coefficients of the auxiliary-latitude series are bounded by 100 (series-mode tolerance at |f| = 0.01)"],
)

# ---- deepening round (G09) -------------------------------------------------------------------------------------------
import hashlib as _hl, os as _os
_verif = _os.path.dirname(_os.path.dirname(_os.path.dirname(_os.path.abspath(__file__))))
_repo = _os.environ.get("GV_REPO", "/repo")


def _tool_digest():
    # harness/C09.cpp compiles $GV_REPO/tools/RhumbSolve.cpp into itself (observe_at: tools/RhumbSolve): the harness cache key must
    # depend on its text (the generic key covers only the library and the harness sources)
    try:
        return _hl.sha256(open(_os.path.join(_repo, "tools", "RhumbSolve.cpp"), "rb").read()).hexdigest()[:16]
    except OSError:
        return "0"


_P = PROPS["C09"]
_P["harnesses"] = [dict(name="C09", procs_quick=2, procs_thorough=16,
                        extra=["-I" + _os.path.join(_verif, "harness", "C09_tools"), "-DGV_TOOLS_DIGEST=0x" + _tool_digest()])]
_P["rule"] += (
    ". Deepening round: every inverse case in series mode is also run through op rh_inv (Rhumb::GenInverse end to end against Model/RhumbSeries.lean), every direct case through rh_pos "
    "(RhumbLine constructor members + GenPosition), exact-mode cases through rh_xinv / rh_xpos (Model/RhumbExact.lean around the exact conversions); new inverse strata: opposite hemispheres with "
    "|lat1| + |lat2| > 90 (tan chi1 tan chi2 < -1, the branch cut of Datan), same parallel with |lat| in (45, 90) and in [0, 45] incl. lon12 = 180 x 10^-k; rh_const for every ellipsoid of the list "
    "(+ f = +-0.0033, 1e-9, 0.006, -0.009); rh_dconv for all 36 ordered pairs of auxiliary latitudes on equal / 1 ulp apart / 1e-13..1 apart / mirrored / independent angles given by unnormalized "
    "points (scale 1e-3..1e3); rh_msx; rh_de, rh_drect on the latitude strata; rh_carlson on x in [0, 1] (incl. 0), y in (0.1, 2), z = 1 or 1e-2..1e2; rh_datanhee on the tangent strata of op dd; "
    "rh_api (every third case: all overloads, all 8 output masks of both solvers and of the line, ALL, LONG_UNROLL, line copy / constructor, PolygonArea-facing overloads); rh_solve (every fourth "
    "case: RhumbSolve compiled from $GV_REPO/tools, direct / -i / -L x -E x -u, three input lines, one in four runs with a malformed line in between)")
_P["tolerances"].update({
    "Model/RhumbSeries.lean, Model/RhumbExact.lean vs implementation (ops rh_*)": "4 x the first-order running error bound of the model's own binary64 evaluation on the same inputs (FP/RunErr.lean; Wilkinson; libm calls 1 ulp, hypot 2 ulp), as in C01/C02: computed from the arithmetic of the model for every input, hence condition-aware; nothing fitted. Members that are passed through (_lat1, _lon1, _azi12, _salp, _calp) must be equal. |mu2| within its own error bound of 90: either branch accepted",
    "DE vs quadrature (dd-elliptic)": "64 ulp + length tolerance / (R_mu (pi cos(phi) + |dphi|)) as for DRectifying (cos((x+y)/2) of the radian angles loses relative accuracy next to a pole, where lengths shrink with cos(phi))",
    "DConvert vs (Convert(zeta2) - Convert(zeta1))/(zeta2 - zeta1) (dd-convert)": "64 ulp / |zeta2 - zeta1| (the points are rounded (sin, cos) pairs), only for 1e-3 < |zeta2 - zeta1| < 3",
    "RhumbSolve vs library": "half a unit of the last printed digit at -p 10 (1e-15 deg, 1e-10 m, 1e-3 m^2) + 4 ulp; exit status and the number of output lines exactly",
    "interfaces (rh_api, accessors, WGS84)": "exact equality (bit for bit; sentinel untouched for outputs that were not requested)",
})
_P["level_text"] = (
    "THE WHOLE SERIES PATH OF Rhumb IS A LEAN MODEL (Model/RhumbSeries.lean, polymorphic, same operations in the same order): the constructor (_n, _rm, _c2, AreaCoeffs on the table re-extracted from Rhumb.cpp, "
    "the seven AuxLatitude coefficient blocks via fillcoeff on the tables re-extracted from AuxLatitude.cpp), AuxAngle (normalized, radians, tan, lam, degrees via the C16 octant logic of atan2d, sincosd on [-90, 90]), "
    "Convert (Clenshaw + rotation), DConvert, DClenshaw, Dlam, Dp0Dpsi, MeanSinXi, GenInverse (incl. the pole branch), the RhumbLine constructor (pole start cos = eps^2) and GenPosition (both branches; AngNormalize, LatFix and the two-step pole reduction "
    "are the exact binary64 models of C16). THE EXACT PATH (Model/RhumbExact.lean): Carlson RF/RD (duplication loops as coded), DE (DLMF 19.11 addition theorem; parametric in the kernels RF, RD), DParametric, Datanhee, DIsometric, "
    "DRectifying (around the values of AuxLatitude::Rectifying), the exact branches of GenInverse / MeanSinXi / GenPosition around the exact conversions and the DST-fitted _pP. Both are executed in the running-error arithmetic against "
    "the implementation on every sampled input (4 x the model's own first-order bound). "
    "THEOREMS over R about these executed definitions, for EVERY coefficient list (hence for the extracted tables): convert_is_series (Convert returns the unit point of zeta + sum c_k sin((2k+2) zeta) when the correction is below a right angle); "
    "DConvert_dd (DConvert x (zeta2 - zeta1) = Convert-series difference for all representatives of angles in (-pi, pi], no exception at Delta = 1), DConvert_confluent (HasDerivAt of the series at zeta1 = zeta2), dclenshaw_dd_all, "
    "dclenshaw_confluent (DClenshaw at Delta = 0 is the derivative of the Clenshaw sum, sine and cosine series, by continuity of the matrix recurrence and of sinc); dmudpsi_series_dd / _parallel; "
    "geninverse_series: THE SERIES RHUMB INVERSE IS THE EXACT RHUMB INVERSE OF THE SERIES AUXILIARY LATITUDES - azi12 is the direction in degrees of (psi2 - psi1, lam12) (tan azi12 = lam12/(psi2 - psi1), right quadrant), s12 cos azi12 = _rm (mu(chi2) - mu(chi1)), "
    "s12 sin azi12 = lam12 dmudpsi _rm, s12 = hypot(lam12, psi12) dmudpsi _rm with dmudpsi = mu'(chi) cos chi on a parallel, S12 = _c2 lon12 MeanSinXi; meansinxi_series(_composed, _parallel): MeanSinXi (psi_y - psi_x) = Delta p0 + Dp (beta~_y - beta~_x) with Dp the Clenshaw "
    "divided difference of the area series p = sum P_l cos((2l+2) beta) (certified by rhumb_area_table), = Delta(p0 + p o beta) under the composition hypothesis; gendirect_geninverse_series: GenPosition fed with the inverse solution returns phi2, lon12 and the same S12 "
    "UNDER the hypotheses that the chi->mu series after phi->chi is the phi->mu series and that mu->phi reverts phi->mu at phi2 - these hold only modulo n^7 for the tables (C15 Gen certificates aux_compose_partial, aux_revert): the truncation is a stated hypothesis, not proved away; "
    "sincosd90_spec, atan2d_spec. Exact path: Dsin_dd, Dh_confluent, DParametric_dd (all four branches incl. the reciprocal one) and DParametric_confluent (both sub-branches: the value seeded change C09E corrupts), Datanhee_prolate_dd / _oblate_dd, "
    "DIsometric_oblate_dd / _prolate_dd (divided difference of asinh(tan phi) - e atanh(e sin phi) resp. + e atan(e sin phi)), DE_symmetric, DE_unit_circle, DE_confluent (for every kernel pair with RF(1,1,1) = 1: DE(X, X) = sqrt(1 + e'^2 sin^2 x)), "
    "DRectifying_chain (chain rule for every kernel whose DE is a divided difference), DRectifying_opposite, DRectifying_confluent. Previously: " + _P["level_text"].replace(
        "Partial: no theorem bounds the floating-point error of the solvers; DRectifying/DE (elliptic integrals), AuxLatitude::Convert and the DST fit of the exact area are kernels covered by the oracle only.",
        "PARTIAL / NOT PROVED: no theorem bounds the floating-point error of the solvers (running-error bounds are computed per input, not proved); the addition theorem for E behind DE (DLMF 19.11.2; checked against quadrature, relation dd-elliptic) and that RF/RD are Carlson's integrals; "
        "AuxLatitude::Rectifying / Conformal / the Newton inversions of the exact conversions and the DST fit of the exact area coefficients are kernels (values taken from the implementation, judged by the quadrature oracle); the isinf/isnan shelters of Dlam, Dp0Dpsi, DIsometric, "
        "AuxAngle::normalized are outside the formula models (judged by the harness: dd-limit); the closure theorem carries the mod-n^7 composition/reversion as hypotheses."))
_P["level_note"] = ("hand-written polymorphic (RealLike) models: Model/Rhumb.lean (helpers, DClenshaw, wrappers), Model/RhumbSeries.lean (series path end to end), Model/RhumbExact.lean (exact path around kernels); "
                    "tables (AreaCoeffs, AuxLatitude coeffs/ptrs, radius polynomials, qd/hd/td) regenerated from the sources each run; AngDiff/AngNormalize/LatFix are the exact F64 models of C16; atan2d octant logic shared with C16 (atan2d_octant); "
                    "oracle in x87 long double with 24-point Gauss-Legendre panels; tools/RhumbSolve.cpp compiled into the harness")
_P["technique"] = ("Lean 4 proofs over R about the executed polymorphic models (divided differences, derivatives via continuity of the recurrences, inverse identities, closure under stated series hypotheses) + table certificate (decide +kernel) "
                   "+ running-error (binary64) and exact-softfloat execution of the same definitions against the implementation + independent quadrature oracle + front-end / interface equalities")
_P["assumptions"] = _P["assumptions"] + [
    "libm calls are faithful to 1 ulp and C hypot to 2 ulp (running-error model of FP/RunErr.lean); Lean's Float functions bind to the same libm as the harness",
    "DLMF 19.11.2/19.11.4 (addition theorem of the elliptic integral of the second kind) and 19.25.9-10, 19.36.1-2 (Carlson forms and series) are the right formulas; checked numerically by quadrature only",
    "series composition / reversion modulo n^7 (C15: aux_compose_partial, aux_revert) enter the closure theorem gendirect_geninverse_series as hypotheses",
]

# seeded round 8 (C09H): exact area on strongly eccentric ellipsoids
PROPS["C09"]["level_note"] = PROPS["C09"].get("level_note", "") + (
    " Added after seeded round 8: op rh_zone / relation rhumb-zone-area — S12 of an east-west course of the exact solver against the closed-form zone area "
    "(b^2/2) dlon [sin phi/(1 - e^2 sin^2 phi) + atanh(e sin phi)/e] in long double on ellipsoids with third flattening n up to +-0.9 (relative 2e-8 + 1e-8 b^2; "
    "at n = 0.95 the unchanged library is itself only good to 5e-8 of the zone next to the equator, no accuracy is documented there, no claim is made).")
