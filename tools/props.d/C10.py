# C10: text formatting and parsing (DMS, Utility::str/val, GeoCoords, GeoConvert / GeodSolve)
import hashlib as _hl, os as _os

_verif = _os.path.dirname(_os.path.dirname(_os.path.dirname(_os.path.abspath(__file__))))
_repo = _os.environ.get("GV_REPO", "/repo")


def _tools_digest():
    # the harness compiles $GV_REPO/tools/GeoConvert.cpp and GeodSolve.cpp into itself: make the harness cache key
    # depend on their text (the generic key covers only the library and the harness sources)
    h = _hl.sha256()
    for f in ("GeoConvert.cpp", "GeodSolve.cpp"):
        p = _os.path.join(_repo, "tools", f)
        try:
            h.update(open(p, "rb").read())
        except OSError:
            h.update(b"missing:" + f.encode())
    return h.hexdigest()[:16]


PROPS["C10"] = dict(
    harnesses=[dict(name="C10", procs_quick=4, procs_thorough=16,
                    extra=["-I" + _os.path.join(_verif, "harness", "C10_tools"), "-DGV_TOOLS_DIGEST=0x" + _tools_digest()])],
    gens=["gen_dms", "gen_math", "gen_utm"],
    rule=("encoder: angles from the all-doubles strata (anchors ±ulps, 2100 binades, subnormals, huge, non-finite) plus values within 0.01…1.5 "
          "units of the last printed digit below whole degrees / minutes (carry), tiny negative azimuths, exact binary ties, short decimals, "
          "multiples of the unit, ±180/±360 neighbours × trailing DEGREE/MINUTE/SECOND × prec 0–20 × flag NONE/LATITUDE/LONGITUDE/AZIMUTH × "
          "separator none ':' ' ' ',' 'x' '-', and a fixed carry grid (6 degrees × 3 offsets × prec 0–11 × flags); decoder: documented forms "
          "generated with their closed-form meaning (every non-empty subset of d/m/s, omitted last indicator, colon form, leading zeros, "
          "fraction in the last component incl. '.5' and '5.', 10/12/8 alternative degree/minute/second symbols, two minute marks for seconds, "
          "3/7 plus/minus variants, 8 ignored-space variants, sign and hemisphere prefix/suffix in both cases, sums of 2–4 signed pieces, "
          "ASCII white space around), the header's LEGAL classes and ILLEGAL list plus 60 malformed strings (must be rejected), 1–3 byte "
          "mutations (insert/delete/replace/duplicate/swap/truncate; NUL, high-bit bytes, indicator and sign characters) of valid strings, "
          "random byte strings over a biased alphabet, digit strings of 15–420 digits; DecodeLatLon/DecodeAngle/DecodeAzimuth on pairs with "
          "all flag combinations; Utility::lookup on all 4 tables × 256 bytes; Utility::str/val at prec 0–18, val/fract on printf-formatted "
          "and mutated numbers and edge literals; GeoCoords at zone/band boundaries, poles, the equator ±1e-9, UPS, ±180, prec −7…12; "
          "GeoConvert (18 option sets) and GeodSolve (18 option sets) on 0–8 line inputs mixing valid, listed-malformed, mutated, random, "
          "empty and NUL-containing lines with and without a final newline. non-trivial = accepted by the implementation; distinct = "
          "distinct (op, leading argument characters)"),
    tolerances={"strings (Encode, str, GeoCoords representations), hemisphere flag, accept/reject, lookup index": "exact (model = implementation)",
                "Decode / val value": "bit-equal to the model, else within 2^-50·Σ|pieces| of the exact rational ±(d+m/60+s/3600) (drift, not an alarm)",
                "Encode→Decode and str→val round trip": "half a unit of the last printed digit + 4 ulp, same sign / hemisphere (theorem roundtrip_bound: 1/2 unit + 2^-53 + 4*2^-53*(|x| + …))",
                "printed fields re-assembled": "half a unit of the last printed digit + 2 ulp; minutes, seconds < 60; azimuth in [0, 360] (closed, finding F7)",
                "documented forms": "4 ulp of Σ|pieces| around the closed form evaluated in 80-bit arithmetic",
                "GeoCoords round trips": "half a unit of the last printed digit (+ 4 ulp); same zone; same hemisphere unless within the printed resolution of the equator",
                "tools": "#output lines = #input lines, ERROR prefix on listed-malformed lines only, exit status ≠ 0 iff an ERROR line, GeoConvert output re-accepted"},
    level_text=("Theorems (byte / integer level, all inputs): the carry logic of Encode (splitFields: minutes and seconds < 60, fields re-assemble to the "
                "rounded count, azimuth count ≤ 360 units gives degrees ≤ 360 with zero minutes/seconds at 360); Utility::lookup never matches NUL and "
                "inverts the extracted tables; slot bookkeeping of InternalDecode (a number followed by d, ' or \" lands in the slot the indicator names, "
                "also when components are skipped; ':' and a trailing number use the next expected slot; order/repetition/fourth component errors); "
                "DecodeLatLon flag assignment and the |lat| > 90 rejection. CLOSURE formatter ⊆ parser (new): fmtFixed_shape (%.*f of any finite value is "
                "[-]digits[.digits] with exactly p decimals and the values N div 10^p, N mod 10^p of the rounded count N), encode_in_grammar (for EVERY "
                "finite binary64, trailing DEGREE/MINUTE/SECOND, every precision after clamping, flags NONE/LATITUDE/LONGITUDE/AZIMUTH and every separator "
                "byte the output of the model encode is [-] D [d M [' S]] [.F] [' or \"] [S|N|W|E] with non-empty all-digit strings, exactly clampPrec "
                "fraction digits, zero fill included, sign only without flag, letter only for LATITUDE/LONGITUDE and chosen by the sign, the strings "
                "denoting the numbers encFields = degrees incl. carry, minutes, seconds, fraction units), grammar_all (every such text, indicator or ':' "
                "style, with or without fraction, is parsed by the component loop into exactly its three numbers), decode_encode / grammar_decodes "
                "(Decode of such a text through the whole pipeline replaceAll, trim, pieces, strip, comps is the numeric stage evalSlots on the printed "
                "fields added to -0, with the sign the encoder wrote and the flag of the hemisphere class), plain_text_untouched. NUL (new, full statement): "
                "decode_nul_rejected — Decode s is an error whenever a NUL byte occurs in s (each stage keeps the NUL inside a piece, the component loop "
                "rejects it, nummatch does not match it). SUMS (new): pieces_at_signs, decode_sum (a string of signed pieces decodes to the left-to-right "
                "correctly rounded binary64 sum ((-0 + x1) + x2) + … of the pieces' values with the flags combined; an error in a piece is an error of "
                "the sum), hemisphere_repeated, sign_after_hemisphere, sign_with_trailing_hemisphere, internal_sign_rejected. Utility::str/val (new): "
                "str_val_nonfinite (nan, inf, -inf round-trip at every precision), str_val_reads_units (val reads back exactly the printed count of "
                "units, correctly rounded, with the sign of x). ROUND TRIP (new; rational error bounds over the exact binary64 model from the IsRN / RoundSpec rounding theory): fixedUnits_half_unit (the one decimal rounding of %.*f is within half a unit), encode_value_bound (for every representable finite x, flag other than AZIMUTH: encodeHead splits off the whole degrees exactly, computes the fractional part exactly, multiplies by scale = 1/60/3600 with one binary64 rounding and rounds once half-even to units of 10^-prec; printed value within 1/2*10^-prec/scale + 2^-53 of |x|, for DEGREE without the 2^-53), encode_units_le_degree, decode_value_bound (slots with degrees < 2^41, minutes and seconds < 60, at most 15 decimals: evalSlots succeeds, result within 4*2^-53*V of +-V, V = d + m/60 + s/3600 exact; integer digits accumulate exactly, strtod / the sum / the division one correct rounding each), roundtrip_bound (|x| < 2^40, DEGREE/MINUTE/SECOND, every precision, flags NONE/LATITUDE/LONGITUDE, separator none or ':': Decode(Encode x) succeeds with the hemisphere-class flag and |y - x| <= B + 4*2^-53*(|x| + B), B = 1/2*10^-prec/scale + 2^-53), roundtrip_bound_azimuth (EVERY binary64 x, flag AZIMUTH: Encode prints the reduced angle x' = AngNormalize x, +360 with one rounding if negative, x' in [0,360]; Decode gives flag NONE and a value within the same bound of x'), str_val_roundtrip (|x| <= 2^52, p <= 30: val(str x p) succeeds, |y - x| <= 1/2*10^-p + 2^-53*(|x| + 1)). "
                "The byte-level executable model (replace table, trimming, splitting, state machine, exact strtod and %.*f) is compared exactly with the "
                "implementation on every sampled input; round trips, normalisation, documented meanings, rejection of malformed text, GeoCoords closures "
                "and the tools' line contract are oracles on the implementation. Not proved: the round-trip bound for |x| >= 2^40 with the flags NONE/LATITUDE/LONGITUDE (for >= 2^53 degrees it is false for the code as it is: open finding F33); decode_encode for separators other than none and ':' (Decode does not read them back); the 4-argument Encode overload and DecodeLatLon/GeoCoords compositions are correspondence only; that glibc strtod / printf and libstdc++ num_get behave as modelled is an assumption validated by the exact correspondence; iostream behaviour is modelled, not verified."),
    level_note=("replace table of DMS::Decode (43 ordered (pattern, char) pairs), hemispheres_/signs_/digits_/dmsindicators_, the flag and component enums and "
                "Math::dm/ms/ds are regenerated from DMS.cpp/DMS.hpp/Math.hpp on every run; hand-written model of the control flow; strtod/printf are "
                "modelled as correctly rounded / exact (glibc), libstdc++ num_get overflow → DBL_MAX; GeoConvert.cpp and GeodSolve.cpp are compiled "
                "from the current tree into the harness (their main under a namespace) and run in-process on redirected cin/cout"),
    technique="Lean 4 proof over the byte/integer-level model (induction, omega, decide over the extracted tables) and over the exact binary64 model with the IsRN / RoundSpec rounding theory (rational error bounds) + exact model/implementation correspondence",
    assumptions=["glibc strtod is correctly rounded and printf %.*f is exact round-half-even (validated by the correspondence on every run)",
                 "std::istringstream >> double accepts exactly the modelled syntax (validated likewise)"],
)

# ---- glue round (G10b): calendar, ParseLine, trim, val<bool/int>, readarray/writearray, GeoCoords accessors / alternate zone / string constructor
PROPS["C10"]["rule"] += ("; GLUE: Utility::date -> day -> dow on EVERY day number of 1352-01-01 … 2427-01-01 (thorough: 0001-01-01 … 3300-12-31) as hashed scans compared with a "
                         "day-by-day walk of the documented calendar and with the Lean model, day/date/day(check)/dow on anchors (1752-09-02/14, century Februaries, guards), valid and "
                         "just-invalid dates, unnormalised months/days around year 0, the full guarded ranges; date strings and fractionalyear (yyyy, yyyy-mm, yyyy-mm-dd, malformed, "
                         "mutated) against day-of-year/days-in-year from the walk; ParseLine on generated KEY [=] VALUE lines (equals NUL/'='/':'/' '/tab, comment '#'/NUL/';'/'%', "
                         "inner spaces, comments, no-key lines, mutations); trim; val<bool> documented spellings in random case and near misses; val<int>; readarray/writearray for 8 "
                         "type/endianness instantiations × sizes 0…2500 (buffer boundary 1024), array and vector forms, short streams; GeoCoords accessors, SetAltZone over all zone "
                         "specifications and neighbouring zones, Alt* accessors and representations, explicit-hemisphere representations, the string constructor on every representation "
                         "in both orders with ' ' ',' tab newline separators, centerp, malformed token counts; DMS::Decode(d,m,s) / Encode(ang,d,m[,s])")
PROPS["C10"]["tolerances"].update({
    "Utility::day/date/dow/day(check), date(string), ParseLine, trim, val<bool> words, token dispatch of GeoCoords::Reset": "exact (model = implementation); calendar also = independent day-by-day walk",
    "fractionalyear": "bit-equal to the model (y + a/b in binary64), and within 4 ulp of y + (day of year − 1)/(days in year) from the walk",
    "GeoCoords accessors / Alt* accessors": "bit-equal to UTMUPS::Forward at the same point with setzone = AltZone() (northing shifted into the reported hemisphere)",
    "Alt / explicit-hemisphere representations re-parsed": "same zone, easting/northing within half a unit of the last printed digit + 4 ulp(1e7)",
    "readarray/writearray": "bytes = independent big/little-endian encoding; read back identical; short stream ⇒ GeographicErr"})
PROPS["C10"]["level_text"] += (" GLUE (new): calendar of Utility::day/date/dow as an Int model with C++'s truncating division (Model/Calendar.lean) — theorems date_day (for EVERY date of the "
                               "documented calendar from 0001-01-01 on — Julian leap rule to 1752, Gregorian after, 1752-09-03…13 absent — date(day(y,m,d)) = (y,m,d); unbounded years), day_pos, "
                               "dayChecked_accepts (day(…, check = true) accepts every valid date up to year 200000), switch_consistent (gregorian(y,m,d) = gregorian(day number) on valid dates), "
                               "dow_periodic, calendar_anchors (0001-01-01 = day 1 = Saturday, 1752-09-02 Wed → 1752-09-14 Thu = day 639799, …). INVERSE AND SUCCESSOR (new): day_next (the day number steps by exactly one along the documented "
                               "calendar — month ends, leap days of either rule, year ends, the 1752-09-02 → 09-14 switch — and the successor of a valid date is valid), day_date (for EVERY s ≥ 1, "
                               "date(s) is a valid date and day(date(s)) = s: by induction along nextDate every day number is hit, so day and date are mutually inverse bijections), date_succ "
                               "(date(s+1) = nextDate(date(s)) for every s ≥ 1), dayChecked_only_valid (day(…, check = true) succeeds ONLY on dates of the documented calendar — with dayChecked_accepts: exactly on them), dow_next (the week day advances by one along the calendar, also across the 1752 switch), date_strictMono and day_lt_iff (date is strictly increasing for the lexicographic order of (y,m,d) on all s ≥ 1; day orders the valid dates as the calendar does), fractionalyear_range (for every valid date up to year 199999 the exact rational behind fractionalyear is y + n/den with 0 ≤ n < den). Not proved: ParseLine / trim / val<bool> / "
                               "GeoCoords token dispatch are executable models compared exactly with the implementation, with decided examples but no universally quantified parseLine_spec; "
                               "GeoCoords accessors, alternate zone, representations, readarray/writearray, val<int>, DMS numeric helpers are oracles on the implementation only. Open finding F97: the "
                               "string constructor of GeoCoords does not reduce the longitude to [-180, 180] as its documentation says.")
