# C16 (deepening round): every instantiation, the full Lean models of the degree functions, the accumulator state machine
_P = PROPS["C16"]
# the wide reference type for the long double instantiation is __float128 (libquadmath)
_P["harnesses"] = [dict(name="C16", procs_quick=2, procs_thorough=16, extra=["-lquadmath"], timeout=3400)]

_P["rule"] = (
    "three instantiations (float, double, long double) of every Math:: template and Accumulator<float|double>. One-argument battery "
    "(AngNormalize, AngRound, LatFix, sq, sincosd, sind, cosd, tand, atand, sincosde(x, ±0)): anchors 0/15/30/45/60/…/360k, 1–3 ulp neighbours at the "
    "precision of the instantiation, every binade down to the subnormals and up to the largest finite number, multiples of 15 and 90, the AngRound "
    "threshold 1/16, NaN/±inf/±0; quick tier additionally 20 000 uniformly random float bit patterns and one window of 2^20 consecutive patterns; "
    "thorough tier: ALL 2^32 float bit patterns (16 processes × 256 chunks of 2^20). Pairs: sum (equal exponents, 1..p+8 binades apart, cancellation, "
    "ties, subnormal, near overflow), AngDiff (x, x+{0,±180,±360,90,1e-13}, −x, ±180 ± ulps), atan2d (octants, axes, diagonals, ±0, ±inf, y/x "
    "spanning 80 binades), sincosde (x at multiples of 30 ± ulps, correction t = ±0 / below half an ulp of the reduced angle / multiples of the AngRound gap / "
    "cancelling the reduced angle / up to 2^-8), taupf–tauf (120 binades of tau, es over (−1, 1) incl. WGS84 and ±0.99), polyval/norm/hypot3, swab, constants. "
    "Accumulator histories of 1–30 operations over every public member (=, construction+copy, +=, −=, *= −1, *= ±2^k, *= y, copy round trip, remainder in "
    "place, operator()(y), the six comparisons) in four regimes (mixed magnitudes; huge sums reduced by a small modulus; cancellations; subnormal addends). "
    "A case is non-trivial when the implementation returned a non-NaN result; distinct = distinct (op, leading bits of the first three arguments)")

_P["tolerances"] = {
    "sum / AngDiff / AngNormalize / AngRound / LatFix (float, double, long double)": "exact: decided in Lean in dyadic arithmetic at 24 / 53 / 64 bits (s = RN(u+v), s+t = u+v; d+e ≡ y−x mod 360, |d+e| ≤ 180, d = RN(d+e), sign rule at 0/±180; AngRound = nearest multiple of 2^−(p+4) below 1/16)",
    "sincosd / sind / cosd": "2 ulp against the next wider type (double / x87 long double / __float128) on the exactly reduced argument; bit-exact closed forms at multiples of 30 and 45; signed-zero rules; bit-exact oddness/evenness, period 360, cofunction identity sin x = cos(90 − x) where the shift is exact",
    "sincosde": "3 ulp (sincosd's 2 + the rounding of d0 + t) + the documented AngRound gap 2^−(p+5) degrees; exact at multiples of 30/45 with t = ±0; Lean model: exact in the special and zero branches, 4 ulp around the oracle kernel otherwise",
    "tand": "6 ulp (quotient of two 2-ulp quantities); exactly ±1 at odd multiples of 45; finite and ≥ 1/eps at odd multiples of 90; odd",
    "atan2d / atand": "4 ulp (atan2, the rounded constant degree, the division, the octant offset); exact on the axes, the diagonals and at ±inf",
    "eatanhe": "(4 + 2·cond) ulp, cond = condition number of atanh at es·x",
    "taupf": "8 ulp × cancellation factor against the closed form in the wider type",
    "tauf∘taupf": "64 eps × 1/(1−e²)",
    "polyval / norm / hypot3 / sq": "Horner bound 2N·eps·Σ|p_n||x|^(N−n); 3 ulp; 4 ulp; correctly rounded (exact fma residual)",
    "accumulator": "per operation (exact dyadic arithmetic in Lean): =, copy, negation, ×±2^k exact; += / −= lose at most 2^(1−2p)(|_s'|+|y|+|_t|); *= y at most 2^(1−p)|y||_t| + 2^(1−2p)|y||_s|; remainder: reported value = RN(_s+_t), held sum changed by an exact multiple of y into [−|y|/2, |y|/2] ± |_t|; whole history: 2^(8−2p) relative to Σ|terms|; double: (_s, _t) bit-for-bit equal to the Lean state machine after every operation",
}

_P["level_text"] = (
    "THEOREMS (Lean 4, all inputs / all histories; about the exact binary64 model that the driver executes against the implementation). "
    "(1) remainder_exact: remainder (the reduction inside AngNormalize, AngDiff, remquo of sincosd) is exact, |r| ≤ |y|/2, zero keeps the sign of x. "
    "(2) angNormalize_spec / angNormalize_nonfinite / latFix_spec / angRound_big: AngNormalize returns a value congruent to x mod 360 exactly, in [−180, 180], with the sign of x at 0 and ±180 "
    "(constants 360/180/90 re-extracted from Math.hpp every run); AngNormalize is odd in value and sign bit (angNormalize_odd); LatFix is the identity exactly on [−90, 90]; AngRound is the identity for |x| ≥ 1/16 (angRound_big), below 1/16 it returns the nearest multiple of the documented gap 2^−57 "
    "(within 2^−58 of |x|, in [0, 1/16], sign bit of x kept: angRound_small), and it is odd bit for bit for every argument incl. NaN/±inf (angRound_odd). "
    "(3) sum_exact (Knuth's TwoSum for round-to-nearest-even with gradual underflow): for all representable u, v with |u|, |v| ≤ 2^1018, Math::sum returns the correctly rounded sum and "
    "s + t = u + v exactly — no longer an assumption; fastsum_exact: the same for Accumulator::fastsum when |u| ≥ |v| (Dekker's Fast2Sum). (4) angDiff_exact: d + e ≡ y − x (mod 360) exactly for all finite x, y (no TwoSum hypothesis). "
    "(5) Accumulator as a state machine (Model/Accum.lean: step/run over =, +=, −=, *= −1, *= int, *= y, remainder, const members): accum_add_step (one Add: exact three-word sum, the only "
    "rounding is _t += u), addErr_second_order (that rounding is ≤ 2^−104(|_s|+|_t|+|y|) + 2^−1075), remainder_renormalises (after remainder(y): operator()() = RN(_s + _t), the held sum "
    "changed by exactly remquo(_s, y)·y, |held| ≤ |y|/2 + |_t|), accum_history (induction over operation lists: for every history of =, +=, −=, negation, remainder, const members without "
    "overflow both words stay representable and |(_s + _t) − exact value of the history| ≤ Σ of the single roundings of its += / −= steps), accum_history_exact (no += / −=: exact). "
    "(6) degree functions, full models around abstract libm kernels (Model/MathG.lean: sincosdM, sincosdeM, sindM, cosdM, tandM, atan2dM, atandM): sincosd_quadrant (ℝ: the quadrant switch is "
    "correct for every quotient), special_values_correctly_rounded (√½, √3/2 within half an ulp, ½ exact), sincosCore_special (the special branches are taken exactly at |d| = 45 and |d| = 30 "
    "and return (copysign(√½, r), √½), (copysign(½, r), √3/2)), sincosd_reduction_periodic (x' = x + 360n ⇒ same reduced angle, quotient + 4n, same quadrant; ties included), "
    "sincosd_reduction_odd (remquo(−x) negates angle and quotient; the switch maps (−s, c) to (−sin, cos)), sincosFinish_signed_zeros, sincosde_zero_correction_partial (sincosde(x, 0): same reduced "
    "value, sign, branch, quotient as sincosd(x) when |d0| ≥ 1/16), atan2d_octant (ℝ), atan2d_axes (±0, ±180, ±90 exactly for every finite argument), atand_one (±45 exactly), tand_special45 (±1 exactly). "
    "CORRESPONDENCE, decided in Lean for every sampled input: (a) double: AngNormalize, AngDiff, sum, AngRound, LatFix bit-for-bit against the model plus the exact relations; sincosd wrapper from the "
    "implementation's own kernel values; sincosd/sincosde/sind/cosd/tand/atand predicted by the full models around independent long-double kernels (exact on quadrant, special branch, signs, zeros, clamp; "
    "3–7 ulp on kernel-derived values); atan2d octant wrapper; Accumulator<double> state (_s, _t) bit-for-bit after every operation of every history; (b) float and long double: the exact relations of "
    "sum, AngDiff, AngNormalize, AngRound, LatFix and the accumulator relations in dyadic arithmetic at 24 / 64 bits. "
    "HARNESS ORACLES on the implementation (all three instantiations, against the next wider type): see tolerances. Thorough tier: every one of the 2^32 float bit patterns through the one-argument battery. "
    "NOT PROVED: ulp accuracy of anything that goes through libm (measured); bit-level oddness of the full sincosd/tand/atan2d models (proved for the reduction and the switch, not through the kernel "
    "application); sincosde(x, 0) = sincosd(x) as terms (partial, see the theorem); the accumulator theorems exclude *= int and *= y (compared with the model by the driver) and assume no overflow; "
    "no theorem is about the float / long double instantiations (their exact relations are decided per sample).")

_P["level_note"] = (
    "Lean kernel + propext/Classical.choice/Quot.sound; hand-written F64 softfloat model (validated bit-for-bit against the implementation by the correspondence run; its rounding theory "
    "RoundSpec round53 and Knuth's TwoSum are proved); constants qd/hd/td regenerated from Math.hpp; harness oracles use double / x87 long double / __float128 (libquadmath) as the wider type; "
    "the kernels of the degree-function models are abstract in the theorems and are the harness's wide-precision values in the correspondence")

_P["technique"] = ("Lean 4 proof (exact binary64 model, rationals, reals) + execution of the same Lean model against the implementation + exact dyadic evaluation in Lean of the "
                   "property relations on implementation outputs at 24/53/64 bits + wide-type oracles in the harness")

_P["assumptions"] = [
    "libm sin/cos/atan2/atanh/sinh/hypot accuracy is measured against the next wider type, not proved",
    "the float and long double instantiations are checked per sample (exhaustively for one-argument float functions in the thorough tier), not by theorems",
    "accumulator theorems: no overflow along the history (|words|, |operands| ≤ 2^1016), *= int and *= y outside the theorems",
]
