# C16 (deepening round): every instantiation, the full Lean models of the degree functions, the accumulator state machine
_P = PROPS["C16"]
# the wide reference type for the long double instantiation is __float128 (libquadmath)
_P["harnesses"] = [dict(name="C16", procs_quick=2, procs_thorough=16, extra=["-lquadmath"], timeout=3400)]
