PROPS["C13"] = dict(
    harnesses=[dict(name="C13", procs_quick=4, procs_thorough=16, timeout=3400,
                    env={"ASAN_OPTIONS": "detect_leaks=0:abort_on_error=0:allocator_may_return_null=1"})],
    gens=["gen_nnconst", "gen_math", "gen_utm", "gen_gridcodes"],
    rule=("table-driven sweep, complete in both tiers: every entry point of the table (229 public numeric members / statics of Geodesic, GeodesicExact, "
          "GeodesicLine(Exact) in three solver configurations, Rhumb(Line) series and exact, TransverseMercator(Exact) x4, PolarStereographic, "
          "LambertConformalConic, AlbersEqualArea (northern, southern, cylindrical), Geocentric, LocalCartesian, UTMUPS, MGRS, Geohash, GARS, Georef, "
          "OSGB, AzimuthalEquidistant, Gnomonic, CassiniSoldner, Ellipsoid, AuxLatitude (all 36 conversions), EllipticFunction, PolygonArea x3, "
          "Intersect, DMS, Utility, GeoCoords, Math, Accumulator, NormalGravity, SphericalHarmonic/1/2, CircularEngine, Geoid, MagneticModel, "
          "GravityModel, Magnetic/GravityCircle on synthetic data files) x every argument position x {NaN, ±inf, ±0, ±denormal, min normal, ±1e308, "
          "DBL_MAX, ±90, ±180, ±360, 540, ±1e17, 2^53, ±91, 90-ulp, 1e-300, ±1, 2^32, 2^31, -2^31-1} + random binades; outputs pre-filled with "
          "sentinels (ints, bools, strings mapped); constructors: valid tuple, one parameter bad at a time, random tuples, conic poles in all three "
          "constructor forms; NearestNeighbor: Node::Check on crafted records (every field at / one beyond each bound), Load on genuine trees with "
          "one mutated field (text and binary) followed by Search, byte-level corruption; encoders with NaN/inf/out-of-range positions, decoders and "
          "all text parsers (DMS, GeoCoords, Utility::val/fract/date/fractionalyear/ParseLine…) on seeds and 1–3 character mutations incl. NUL / "
          "high-bit / many colons / long digit strings; integer arguments over {INT_MIN … INT_MAX}; truncated / corrupted Geoid, MagneticModel and "
          "GravityModel files incl. huge degree words. non-trivial = call returned without exception; distinct = distinct (op, leading argument bits)"),
    tolerances={"which outputs are NaN for a NaN argument": "exact (dependence table, decided in Lean)",
                "exception or not / exception type / outputs untouched on throw": "exact",
                "constructor accept / reject": "exact (binary64 predicates evaluated in Lean's softfloat)",
                "Node::Check / Load accept-reject, INVALID markers, decoder accept-reject": "exact",
                "hang": "1 s CPU time per swept call, 3 s per constructor (+ first use), 30–120 s wall for file / search ops"},
    level_text=("Theorems: the decision procedures the driver runs are sound for the contract (a call accepted by checkNaN raised no exception — or the "
                "documented GeographicErr with nothing written — and is NaN on exactly the outputs the dependence table marks as dependent and valid on "
                "those marked independent; an accepted throwing call left every output untouched and threw only the library's exception or bad_alloc); "
                "the 229-row dependence table is well-formed; the Except-returning models of UTMUPS::Forward, MGRS::Forward/Reverse, Geohash, GARS, Georef, "
                "OSGB return the documented INVALID marker for a NaN position and NaN for an INVALID string, and an error leaves the caller's sentinels "
                "(structural); constructor predicates accept exactly the documented domains and the three Lambert / three Albers constructor forms agree "
                "where their parameters coincide; NaN propagates through the binary64 primitives while C fmin/fmax provably discard it; a node accepted by "
                "the model of NearestNeighbor::Node::Check has every index in bounds and a file accepted by the model of Load has every child strictly "
                "before its parent (so Search terminates). The tables and predicates are tied to the code by executing them against the implementation "
                "(ASan+UBSan build) on every sampled call: exception-or-not, which outputs were written, which are NaN, accept/reject. Partial by nature: "
                "absence of undefined behaviour, crashes and hangs in the C++ is only established for the inputs run; the dependence table is hand-written "
                "from the documentation and formulas (validated by the run), not derived from the source."),
    level_note=("NearestNeighbor version / maxbucket regenerated from the header each run; UTM/MGRS/grid-code constants through the imported models; hand-written "
                "dependence table and constructor predicates; hangs are detected by a CPU-time watchdog, sanitizer aborts of *known open* findings are confined to "
                "forked children so that the rest of the sweep still runs"),
    technique="Lean 4 proofs about the contract tables / Except models / Node::Check model + exact table-driven correspondence under ASan+UBSan",
    assumptions=["reading an uninitialised header word in NearestNeighbor::Load (binary, truncated stream) is not detectable by ASan/UBSan and is not covered",
                 "huge but legal sizes in file headers (allocation failures) are not exercised"],
)
