PROPS["C13"] = dict(
    harnesses=[dict(name="C13", procs_quick=4, procs_thorough=16, timeout=3400,
                    env={"ASAN_OPTIONS": "detect_leaks=0:abort_on_error=0:allocator_may_return_null=1"})],
    gens=["gen_nnconst", "gen_math", "gen_utm", "gen_gridcodes", "gen_apic13"],
    rule=("table-driven sweep, complete in both tiers: every entry point of the table (394 rows; the table is checked against the inventory of the public "
          "API extracted from the headers: every public function with a floating-point / string / vector / stream input is swept, driven by a parser / file / "
          "vector-size stream, has a constructor-domain predicate, forwards to an overload that is, or is excluded with a reason; the harness's own entry list must "
          "equal the Lean table, arities included); members / statics of Geodesic, GeodesicExact, "
          "GeodesicLine(Exact) in three solver configurations, Rhumb(Line) series and exact, TransverseMercator(Exact) x4, PolarStereographic, "
          "LambertConformalConic, AlbersEqualArea (northern, southern, cylindrical), Geocentric, LocalCartesian, UTMUPS, MGRS, Geohash, GARS, Georef, "
          "OSGB, AzimuthalEquidistant, Gnomonic, CassiniSoldner, Ellipsoid, AuxLatitude (all 36 conversions), EllipticFunction, PolygonArea x3, "
          "Intersect, DMS, Utility, GeoCoords, Math, Accumulator, NormalGravity, SphericalHarmonic/1/2, CircularEngine, Geoid, MagneticModel, "
          "GravityModel, Magnetic/GravityCircle on synthetic data files) x every argument position x {NaN, ±inf, ±0, ±denormal, min normal, ±1e308, "
          "DBL_MAX, ±90, ±180, ±360, 540, ±1e17, 2^53, ±91, 90-ulp, 1e-300, ±1, 2^32, 2^31, -2^31-1} + random binades; outputs pre-filled with "
          "sentinels (ints, bools, strings mapped), every output also compared bit for bit with the NaN-free baseline call; GeoCoords through all three ways of "
          "setting it (constructor, Reset, string) x {UTM north, UTM south, UPS north, UPS south, lat/lon} with every accessor as an output; Math in float, double and "
          "long double; constructors (40 classes / forms covering every public constructor of the inventory that has a parameter; the harness list must equal ErrContract.ctorTable): valid tuple, every degenerate / limit value (0, -0, +-denormal, "
          "DBL_MIN, 1e+-300, +-1e308, DBL_MAX, f = 1, f = 1 +- ulp, f = 2, NaN, +-inf, poles +- ulp) at every parameter position, one parameter bad at a time, "
          "random tuples, conic poles in all three constructor forms; the maxdist argument of Intersect::All (validated since fix fb4697b: +inf and >= 1e13 m must throw, "
          "NaN / negative / <= 1e8 m must not); SphericalEngine::coeff / SphericalHarmonic / 1 / 2 constructors: every layout (N, nmx, mmx) up to "
          "degree 4 (7 thorough) x vector sizes {exact, C one short, S one short, one long, C empty, S empty, two short, long C + short S, short C + long S}, "
          "N / nmx / mmx at and beyond their limits (-2, -1, N < nmx, nmx < mmx, the degree bound 46339 / 46340 / 46341, 65536, INT_MAX, INT_MIN), two- and three-set forms with one set short "
          "or N1 > N / nmx1 > nmx / mmx1 > mmx; every accepted object is evaluated (value, gradient, circle) under ASan, ops with too-short vectors in a forked child; NearestNeighbor: Node::Check on crafted records (every field at / one beyond each bound), Load on genuine trees with "
          "one mutated field (text and binary) followed by Search, byte-level corruption; encoders with NaN/inf/out-of-range positions, decoders and "
          "all text parsers (DMS, GeoCoords, Utility::val/fract/date/fractionalyear/ParseLine…) on seeds and 1–3 character mutations incl. NUL / "
          "high-bit / many colons / long digit strings; integer arguments over {INT_MIN … INT_MAX}; truncated / corrupted Geoid, MagneticModel and "
          "GravityModel files incl. huge degree words. non-trivial = call returned without exception; distinct = distinct (op, leading argument bits)"),
    tolerances={"which outputs are NaN for a NaN argument": "exact (dependence table, decided in Lean)",
                "outputs that do not depend on the NaN argument ('=' cells)": "bit-identical to the baseline call",
                "exception or not / exception type / outputs untouched on throw": "exact",
                "vector-size / index domain of the harmonic constructors": "exact (integer predicate evaluated in Lean)",
                "NormalGravity(J2 form) and Intersect constructors, Intersect::All maxdist": "two-sided bound (must reject / must accept), nothing required in between",
                "constructor accept / reject": "exact (binary64 predicates evaluated in Lean's softfloat)",
                "Node::Check / Load accept-reject, INVALID markers, decoder accept-reject": "exact",
                "hang": "1 s CPU time per swept call, 3 s per constructor (+ first use), 30–120 s wall for file / search ops"},
    level_text=("Theorems: the decision procedures the driver runs are sound for the contract (a call accepted by checkNaN raised no exception — or the "
                "documented GeographicErr with nothing written — and is NaN on exactly the outputs the dependence table marks as dependent and valid on "
                "those marked independent; an accepted throwing call left every output untouched and threw only the library's exception or bad_alloc); "
                "the 394-row dependence table is well-formed, its keys distinct; api_covered (Gen, re-checked against the clang AST of the public headers on every "
                "run): every public constructor / member / static function that takes a floating-point number, a string, a vector or a stream is covered by a table row, a "
                "constructor-domain predicate, a parser / file-reader stream or a vector-size domain, forwards the same inputs to a covered overload, or is excluded with a "
                "reason, no cover is stale, and the arities of the rows fit the extracted signatures (cover_arities; checkCoverage_sound proves for arbitrary lists what "
                "the one-pass check means); ctor_all_have_domain (Gen): every public constructor has a domain predicate executed against the implementation; the vector-size "
                "predicate of the harmonic constructors accepts exactly the documented needs and rejects a vector one element short (sh_sizes_exact, sh_one_short_rejected, "
                "sh_needs_are_header_sizes up to degree 16), refuses N > 46339 and N < -1 (sh_degree_domain) and keeps the code's 32-bit index arithmetic in range for every "
                "admitted degree (sh_index_fits_int); outputs marked independent of the NaN argument equal the baseline call bit for bit (nan_contract_sound); the Except-returning models of UTMUPS::Forward, MGRS::Forward/Reverse, Geohash, GARS, Georef, "
                "OSGB return the documented INVALID marker for a NaN position and NaN for an INVALID string, and an error leaves the caller's sentinels "
                "(structural); constructor predicates accept exactly the documented domains and the three Lambert / three Albers constructor forms agree "
                "where their parameters coincide; NaN propagates through the binary64 primitives while C fmin/fmax provably discard it; a node accepted by "
                "the model of NearestNeighbor::Node::Check has every index in bounds and a file accepted by the model of Load has every child strictly "
                "before its parent (so Search terminates). The tables and predicates are tied to the code by executing them against the implementation "
                "(ASan+UBSan build) on every sampled call: exception-or-not, which outputs were written, which are NaN, accept/reject. Partial by nature: "
                "absence of undefined behaviour, crashes and hangs in the C++ is only established for the inputs run; the dependence table and the coverage list are "
                "hand-written from the documentation and formulas (validated by the run); what is derived from the source is the inventory they are checked against. The "
                "coverage obligations compare numeric codes of the keys; that every code is the code of its label is a theorem for the table and is executed natively on every "
                "run for the coverage list and the generated inventory (op c13_selfcheck). NormalGravity(a, GM, omega, J2) and Intersect(geod) have solver-defined domains: "
                "only a two-sided bound is modelled."),
    level_note=("OBSERVATION (not a C13 violation; NormalGravity values belong to C19): NormalGravity::J2ToFlattening(a, GM, omega, J2) returns wrong flattenings for "
                "J2 <= -1e16 (finite argument inside the documented domain J2 < J0, no NaN argument, no undefined behaviour, hence no clause of C13 is broken): ep2 saturates "
                "at -(1 - eps) once e2 < -1/eps, the termination test `ep2 == ep2a` then stops the Newton iteration after two steps (round trip FlatteningToJ2(J2ToFlattening(J2)) "
                "off by a factor 823 at J2 = -1e16, 1e19 at -1e50; exact down to -1e15), and for J2 <~ -1e250 the step overflows to +inf and is clamped to 1 - eps, so "
                "J2ToFlattening(WGS84 a, GM, omega, -1e300) = 0.99999998509883881 and NormalGravity(a, GM, omega, -1e300, false) is accepted with b = 0.095 m; the NaN-preserving "
                "clamps of corpus/C13/candidate-J2ToFlattening-nan-preserving.patch (ctest 194/194) only turn J2 = -1.7e308 into NaN. The C13 constructor model for this form is a "
                "two-sided bound that requires acceptance only for -1e10 <= J2 <= 0.3. "
                "public-API inventory (786 functions, 61 constructors) regenerated from the clang-14 JSON AST of include/GeographicLib/*.hpp each run (Gen/ApiC13.lean); "
                "NearestNeighbor version / maxbucket regenerated from the header each run; UTM/MGRS/grid-code constants through the imported models; hand-written "
                "dependence table and constructor predicates; hangs are detected by a CPU-time watchdog, sanitizer aborts of *known open* findings are confined to "
                "forked children so that the rest of the sweep still runs"),
    technique="Lean 4 proofs about the contract tables / Except models / Node::Check model + exact table-driven correspondence under ASan+UBSan",
    assumptions=["the parameter-kind codes of the inventory are assigned by tools/translate.d/C13.py from the clang type strings (trusted extraction; the run cross-checks "
                 "the arities of every swept entry against the Lean table)",
                 "reading an uninitialised header word in NearestNeighbor::Load (binary, truncated stream) is not detectable by ASan/UBSan and is not covered",
                 "huge but legal sizes in file headers and in DST(N) (allocation failures) are not exercised; Intersect::All with a legal maxdist between 2e8 m and its "
                 "limit (~9.3e11 m) is not run (cost grows with maxdist^2)"],
)
