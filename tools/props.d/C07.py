# C07: geocentric / local cartesian — overrides of the PROPS["C07"] entry of tools/props.py (deepening round G07)
import hashlib as _hl, os as _os

_verif07 = _os.path.dirname(_os.path.dirname(_os.path.dirname(_os.path.abspath(__file__))))
_repo07 = _os.environ.get("GV_REPO", "/repo")


def _cartconvert_digest():
    # the harness compiles $GV_REPO/tools/CartConvert.cpp into itself: make the harness cache key depend on its text
    h = _hl.sha256()
    try:
        h.update(open(_os.path.join(_repo07, "tools", "CartConvert.cpp"), "rb").read())
    except OSError:
        h.update(b"missing:CartConvert.cpp")
    return h.hexdigest()[:16]


PROPS["C07"]["harnesses"] = [dict(name="C07", procs_quick=2, procs_thorough=16,
                                  extra=["-I" + _os.path.join(_verif07, "harness", "C07_tools"), "-DGV_TOOLS_DIGEST=0x" + _cartconvert_digest()])]
PROPS["C07"]["gens"] = ["gen_math"]
