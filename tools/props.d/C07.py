# C07: geocentric / local cartesian — overrides of the PROPS["C07"] entry of tools/props.py (deepening round G07)
import hashlib as _hl, os as _os

_verif07 = _os.path.dirname(_os.path.dirname(_os.path.dirname(_os.path.abspath(__file__))))
_repo07 = _os.environ.get("GV_REPO", "/repo")


def _cartconvert_digest():
    # the harness compiles $GV_REPO/tools/CartConvert.cpp into itself: make the harness cache key depend on its text
    h = _hl.sha256()
    try:
        h.update(open(_os.path.join(_repo07, "tools", "CartConvert.cpp"), "rb").read())
    except OSError:
        h.update(b"missing:CartConvert.cpp")
    return h.hexdigest()[:16]


PROPS["C07"]["harnesses"] = [dict(name="C07", procs_quick=2, procs_thorough=16,
                                  extra=["-I" + _os.path.join(_verif07, "harness", "C07_tools"), "-DGV_TOOLS_DIGEST=0x" + _cartconvert_digest()])]
PROPS["C07"]["gens"] = ["gen_math"]

PROPS["C07"]["rule"] = (
    "ellipsoids (a, f): WGS84, International, spheres (a = 1, 6378137, 1e10), f ∈ {0.5, 0.99, 0.1, 0.2, 0.06, −0.01, −0.25, −0.5, −1, −3}, a over 13 decades "
    "(1e-3 … 1e10 m; the far-field threshold 2a/ε scales with a). Forward: latitudes incl. ±90, ±0, 90−ulp, −1e-300; longitudes incl. ±180, ±0, 720.5, −270; "
    "h ∈ {±0, −a, −a(1−f), −0.999a, −a/2, 1e-3a, 35786 km, 1e7, 1e12, 1e20} and uniform. Reverse (15 strata × oblate/prolate/sphere): |P| log-uniform "
    "1e-20…1e20 and 1e20…1e308 (hypot(X, Y) overflowing), the rotation axis, the equatorial plane (Z = ±0), inside the singular disc (Z = ±0, ±5e-324, "
    "±1e-300, 1e-9…1), the rim R = a·e² ± 0..40 ulp, the ends of the prolate singular segment ± 0..40 ulp, inside the evolute (trigonometric branch of the "
    "cubic), deep inside the ellipsoid, the centre with signed zeros and subnormals, |P| = 2a/ε ± 0..6 ulp, ×[0.5, 2], and log-uniform from 1000a up to 2a/ε "
    "(a light-year and beyond for a ≫ 1 m), surface points. LocalCartesian on every ellipsoid: origins incl. both poles, lat0 = ±0, lon0 ∈ {±180, ±90, 540.5, "
    "−0}, h0 ∈ {±0, −a/2, 10a}; Forward/Reverse with the matrix incl. the origin itself, points on the local axes, local (0, 0, 0); Reset after use; the "
    "accessors incl. lon0 = 1e17, lat0 outside [−90, 90]; Rotate/Unrotate with rotation and arbitrary matrices; CartConvert (−e a f, −l, −r, −w, −p −1…12) "
    "on exactly representable decimals. non-trivial = finite result; distinct = distinct (op, leading argument bits)")
PROPS["C07"]["tolerances"] = {
    "Forward vs closed form (long double)": "4 ulp of |h|+max(a, b), × 1/(1 − e² sin²φ)",
    "Reverse closure (forward image in long double)": "16·1.2e-16·max(|P|, a, b)/(1 − max(f, 0)); the same in local cartesian space for LocalCartesian (64 ε)",
    "least |h|": "|h| within 4 × closure tolerance + 1e-9 relative (resolution of the refined scan) of the scanned minimum distance to the ellipsoid; "
                 "beyond 2a/ε: |h| ≤ distance + max(a, b) (theorem reverse_farfield_bound)",
    "far field": "direction within 1e-15 of P/|P|, h within 2 ulp of |P| (inf where |P| overflows)",
    "forward-then-reverse": "30 nm for |h| < 1e7 m, |f| < 0.5, a ~ Earth",
    "rotation matrices": "orthonormal, det 1: 8e-16 (geocentric), 1.2e-15 (local: a product); equal to Rotation at the returned (lat, lon), "
                         "resp. r0ᵀ·Rotation: 1e-15 … 2e-15 per entry",
    "model vs impl (Lean verdict)": "1e-15 relative (forward), 4e-15 (local forward: Reset + Forward), 1e-12·(|P| + max(a, b))/(1 − f⁺) for the Cartesian "
                                    "closure of the implementation's and of the model's reverse answer; accessors, overload forms, Reset histories, CartConvert text: exact",
}
PROPS["C07"]["level_text"] = (
    "Theorems over ℝ about the formula models of Geocentric.cpp / LocalCartesian.cpp that the driver evaluates in binary64 against the implementation "
    "(Props/C07.lean; a > 0, f < 1 arbitrary: oblate, prolate, sphere). "
    "REVERSE INVERTS FORWARD, EVERY BRANCH: reverse_closes — for every point with |P| ≤ maxrad the forward image of the (sin φ, cos φ, sin λ, cos λ, h) "
    "computed by the model of IntReverse is the point itself: general position on either side of the evolute (Cardano branch vermU_spec and trigonometric "
    "branch vermU_trig_spec of the resolvent cubic; trig_branch_domain: the code takes the trigonometric branch exactly for p, q > 0 with "
    "27e⁴pq < (e⁴ − p − q)³, i.e. strictly inside the evolute), prolate ellipsoids (the p ↔ q swap; vermK_spec: the returned pair is (k, k + e²) resp. "
    "(k − e², k) with k > 0 the root of Vermeille's quartic, in every case the general branch is entered with, incl. p = 0 and q = 0, r > 0), the sphere "
    "branch incl. the centre, the rotation axis, the equatorial plane, and the singular disc (oblate) / singular segment (prolate), where the limiting "
    "formulas are proved to return a pre-image. forwardM_reverseM: the same end to end through lat = atan2d(sin φ, cos φ), lon = atan2d(sin λ, cos λ) "
    "in degrees, matrices included. FAR FIELD: reverse_farfield_bound — for |P| > maxrad ≥ 0 the result is h = |P| in the geocentric direction and its "
    "forward image misses P by exactly the surface point, at most max(a, b), i.e. relative ε/2·max(1, 1−f) for maxrad = 2a/ε. "
    "LEAST HEIGHT: forward_height_least / reverse_height_least — in every branch below maxrad (inside the singular disc too) no point of the ellipsoid is "
    "closer to P than |h| and the foot point (on the ellipsoid) is at distance exactly |h|; the excess is (N+h)/N·Δ²_xy + ((1−e²)N+h)/((1−e²)N)·Δ²_z. "
    "RANGES AND FRAME, EVERY INPUT: reverse_unit — the pairs handed to Rotation/atan2d are unit vectors with cos φ ≥ 0 in every branch incl. the far "
    "field; reverseM_ranges — |lat| ≤ 90, −180 < lon ≤ 180; reverseM_frame_isRot, reverseM_frame_is_enu — the matrix returned by Reverse is a rotation and "
    "is Rotation(sin lat°, cos lat°, sin lon°, cos lon°), the matrix Forward returns at the returned position; rotation_orthonormal(_rows), rotation_det, "
    "forward_on_normal, forward_on_ellipsoid as before. "
    "LOCALCARTESIAN: reset_frame (frame = Rotation at (lat0, lon0), origin = forward image), matrixMultiply_spec (MatrixMultiply = rᵀ·M), "
    "matrixMultiply_rotation (a product of rotations is a rotation), localForwardM_at_origin ((0,0,0) and the identity matrix at the origin), "
    "localForwardM_frame_isRot, localReverseM_frame_isRot, local_origin, local_isometry, local_reverse_forward, local_forward_reverse, "
    "localForwardM_reverseM (Forward inverts Reverse incl. the matrix, below maxrad), localForward_eq_unrotate, localReverse_eq_rotate, "
    "rotate_unrotate, unrotate_rotate. "
    "CORRESPONDENCE (binary64 execution of the same definitions, verdict in Lean): Forward and Reverse of both classes with the matrix, Reset "
    "(origin + frame), Rotate/Unrotate; ranges of the implementation's and the model's lat/lon and unit-ness of the model's pairs are decided in Lean on "
    "every sample; LatitudeOrigin = LatFix(lat0), LongitudeOrigin = AngNormalize(lon0), HeightOrigin, EquatorialRadius, Flattening are compared exactly "
    "with the C16 binary64 model. ORACLES ON THE IMPLEMENTATION: closed form, closure, least |h| by a scan of the meridian ellipse, sign of h, far-field "
    "direction, forward-then-reverse in nm, orthonormality and identity of the frames, the three overload forms (no M / M / wrong-size M) bit-identical, "
    "Reset history independence, isometry, CartConvert's text = Utility::str of the API results. "
    "FORWARD THEN REVERSE: reverse_forward_id — for cos φ ≥ 0 and N + h > 0, (1−e²)N + h > 0 (every height above −min(N, (1−e²)N), all geophysical "
    "heights) Reverse(Forward(φ, λ, h)) returns sin φ, cos φ, h exactly and sin λ, cos λ when cos φ > 0 (λ = 0 on the axis), below maxrad; it rests on "
    "merid_unique (two representations of a meridian point on the near side coincide). "
    "PARTIAL / NOT PROVED: reverse_farfield_height_partial gives only the lower half of |h − dist(P, ellipsoid)| ≤ max(a, b) beyond maxrad (there h = |P| is "
    "not the least height by construction); the floating-point error bounds (closure to round-off, the nanometre figures) are oracles on the "
    "implementation, not theorems; sincosd/atan2d/LatFix/AngNormalize enter the ℝ-theorems as sin/cos/arg of degrees (their reduction schemes are C16's "
    "theorems); signed zeros, subnormals, overflow of hypot and the fmax guard against negative w are floating-point matters covered by strata and "
    "oracles only.")
PROPS["C07"]["level_note"] = (
    "hand-written polymorphic model (RealLike) of Geocentric.cpp / LocalCartesian.cpp incl. Rotation, Rotate/Unrotate, Reset, MatrixMultiply and the "
    "matrix-returning forms; sincosd/atan2d are kernels (values taken from the implementation's own Math::sincosd for the forward direction); native Float "
    "hypot is emulated; qd/hd/td for LatFix/AngNormalize regenerated from Math.hpp; tools/CartConvert.cpp of the current tree is compiled into the harness")
PROPS["C07"]["technique"] = (
    "Lean 4 proofs over ℝ of the executed closed-form model (ring / linear_combination / field_simp / nlinarith; Mathlib Complex.arg for atan2, "
    "Matrix for the frames) + binary64 execution of the same definitions against the implementation + property-level oracles in long double")
PROPS["C07"]["assumptions"] = [
    "libm kernels (cbrt, atan2, cos, hypot) agree between Lean's Float and C++ to a few ulp",
    "Math::sincosd(x) = (sin x°, cos x°) and Math::atan2d(y, x) = arg(x + iy)° over the reals (quadrant/octant schemes: C16 theorems sincosd_quadrant, atan2d_octant)",
    "a subnormal distance from the rotation axis (0 < hypot(X, Y) < 1e-290) is excluded from the frame checks: the quotient Y/R has too few bits there",
]
