# C08: polygon area — overrides of the PROPS["C08"] entry of tools/props.py (deepening round G08)
import hashlib as _hl, os as _os

_verif08 = _os.path.dirname(_os.path.dirname(_os.path.dirname(_os.path.abspath(__file__))))
_repo08 = _os.environ.get("GV_REPO", "/repo")


def _planimeter_digest():
    # the harness compiles $GV_REPO/tools/Planimeter.cpp into itself: make the harness cache key depend on its text
    h = _hl.sha256()
    try:
        h.update(open(_os.path.join(_repo08, "tools", "Planimeter.cpp"), "rb").read())
    except OSError:
        h.update(b"missing:Planimeter.cpp")
    return h.hexdigest()[:16]


PROPS["C08"]["harnesses"] = [dict(name="C08", procs_quick=2, procs_thorough=16,
                                  extra=["-I" + _os.path.join(_verif08, "harness", "C08_tools"), "-DGV_TOOLS_DIGEST=0x" + _planimeter_digest()])]
