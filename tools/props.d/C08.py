# C08: polygon area — overrides of the PROPS["C08"] entry of tools/props.py (deepening round G08)
import hashlib as _hl, os as _os

_verif08 = _os.path.dirname(_os.path.dirname(_os.path.dirname(_os.path.abspath(__file__))))
_repo08 = _os.environ.get("GV_REPO", "/repo")


def _planimeter_digest():
    # the harness compiles $GV_REPO/tools/Planimeter.cpp into itself: make the harness cache key depend on its text
    h = _hl.sha256()
    try:
        h.update(open(_os.path.join(_repo08, "tools", "Planimeter.cpp"), "rb").read())
    except OSError:
        h.update(b"missing:Planimeter.cpp")
    return h.hexdigest()[:16]


PROPS["C08"]["harnesses"] = [dict(name="C08", procs_quick=2, procs_thorough=16,
                                  extra=["-I" + _os.path.join(_verif08, "harness", "C08_tools"), "-DGV_TOOLS_DIGEST=0x" + _planimeter_digest()])]

PROPS["C08"]["gens"] = ["gen_math"]

PROPS["C08"]["rule"] = (
    "random edit histories (Clear/AddPoint/AddEdge/TestPoint/TestEdge/Compute, length ≤ 30 quick / ≤ 200 thorough) over five solver configurations — "
    "PolygonArea (Geodesic series), PolygonAreaExact (GeodesicExact), PolygonAreaRhumb (series), PolygonArea over Geodesic(exact = true), PolygonAreaRhumb over "
    "Rhumb(exact = true) — on WGS84 and on a = 6.4e6 with f ∈ {0, ±0.01, 1/150}; polygon and polyline; all four reverse/sign combinations at every query. "
    "History styles: starting with AddEdge / TestEdge / TestPoint / Compute on the empty object (edge before any point), named shapes (ring round a pole 1–3 "
    "times, tiny, equatorial belt of hemisphere size, straddling lon 0 / ±180 / ±360 / 540 with vertices exactly on them, vertices at the poles, repeated and "
    "relabelled vertices), edges only, mixed; Clear followed by Compute or AddEdge. Vertices on lon 0, ±180, ±360, ±540, 180 + 360k, ±1 ulp, multiples of 90, "
    "poles, clusters; azimuths outside [−180, 180] (±720, multiples of 90, ±180, −0); edge lengths 0, negative, 1e7, 2e7, 4e7, 1.3e8 m. After every operation "
    "NumberPoints, CurrentPoint and the internal record are reported; Polyline, EquatorialRadius, Flattening at both ends of the history. transit/transitdirect "
    "of all three instantiations on nasty longitude pairs and on unrolled pairs within half a turn; AreaReduce through planted sums (±A/2, ±A, 1.5A, tiny, with a "
    "low word) and crossing counts −3…4; AddEdge-built against AddPoint-built polygons and polylines (1–8 edges ≤ 9000 km); metamorphic laws on 3..36-gons of "
    "the named shapes; tools/Planimeter in process on 0–4 polygons per input in 52 option sets (-r -s -l -R -E -G -Q -p -w -e, --geoconvert-input, "
    "--comment-delimiter, --input-string, --line-separator, --input-file -, --output-file -, 11 malformed command lines, -h / --help / --version), vertices as decimal degrees, d°m′s″ with and without "
    "hemisphere letters (which override -w), colon-separated, UTM/UPS and MGRS, polygons ended by blank lines, text, out-of-range values, NaN, three fields. "
    "non-trivial = history with ≥ 2 vertices at a query; distinct = distinct (op, leading bits of first arguments)")

PROPS["C08"]["tolerances"] = {
    "NumberPoints / counts returned, CurrentPoint, first vertex, crossing parity, which outputs are written": "exact",
    "perimeter/area and the two accumulators (held value) vs exact rational bookkeeping": "8·2^-53·(Σ|terms| + A)",
    "bit-level record and results vs the binary64 model": "bit for bit; a difference with no property-level difference is drift (skipped line), not a failing input",
    "reverse flips the signed area": "exact negation (both results +A/2 at the end of the range)",
    "unsigned vs signed area, complements": "equal when ≥ 0, otherwise + A within 2 ulp(A); the two unsigned results add up to A within 4 ulp(A)",
    "TestPoint/TestEdge vs AddPoint/AddEdge + Compute on a copy": "count equal; 2^-50·(|sum| + |terms| + A) modulo A (ordinary round-off of the accumulated sums)",
    "the object after a query / after AddEdge on the empty object": "every member bit for bit",
    "AddEdge-built vs AddPoint-built polygon": "perimeter 4·2·25 nm per edge (documented solver accuracy for |f| ≤ 0.01, two solutions per edge); area 4·0.1 m² per vertex (documented bound), modulo A",
    "metamorphic laws": "64e-15·(A+|area|) area, 1e-13 relative perimeter",
    "Planimeter vs API": "character for character",
}

PROPS["C08"]["level_text"] = (
    "Theorems, all about the definitions the driver executes (Model/Polygon: exact rational sums; Model/PolygonF: the concrete record with both accumulators at "
    "the bit level), for every solver (Backend = arbitrary inverse/direct functions) and every finite history of Clear/AddPoint/AddEdge/TestPoint/TestEdge/Compute. "
    "(b) history_independent / history_independent_record: the state (_num, _crossings, both sums resp. all four accumulator words, _lat0, _lon0, _lat1, _lon1, mode) "
    "after any history is the state reached by the Add* operations after the last Clear alone; query_after_history: every query returns what it returns on that "
    "object; clear_after_any_history(_record): Clear after any history gives the constructed state; record_discrete_agrees: the two models agree on everything but the representation of the sums. (e) num_eq_count(_record), count_returned(_record): the "
    "count returned by Compute / TestPoint / TestEdge is the number of vertices (countV: points count, edges count once there is a point, Clear restarts; +1 for the "
    "tentative vertex, 0 for TestEdge on the empty object). run_closed_form / sums_of_history / polygon_compute: for any history the sums are the sums of length, "
    "area term and crossing count over the edges laid down since the last Clear (inverse problem + transit for points, direct problem + transitdirect for edges, "
    "edges before the first point ignored), and Compute returns AreaReduce of these plus the closing edge. (a) polyline_never_touches_area(_record), "
    "polyline_compute, polyline_results, polyline_S12_irrelevant: a polyline never changes _areasum/_crossings, Compute returns the vertex count and the sum of the "
    "edge lengths (not closed), no query writes the area, and nothing returned or stored depends on the solver's S12. (c) sim_query / sim_exec / sim_edge_point / "
    "edges_as_points: under the solver contract Consistent (the inverse problem from an edge's start to the end its direct problem returns gives back the length "
    "and the area term, and transit ≡ transitdirect mod 2 — transitdirect_transit_parity derives the latter from the AngDiff/AngNormalize/remainder contract on "
    "ℚ) replacing every AddEdge of an arbitrary mixed history by AddPoint of the returned vertex changes no answer of any query; edge_polygon_is_point_polygon: "
    "AddPoint v₀; AddEdge*; Compute equals polygon over v₀ and the direct vertices, so polygon_eq, start_independent, reverse_traversal, cut_additive cover "
    "AddEdge-built polygons. (d) orientAcc_flip, areaReduceAcc_cases, areaReduceAcc_signed_flip, areaReduceAcc_unsigned_eq_signed, "
    "areaReduceAcc_unsigned_complement(_held), accRemainder_eq: on the two-word accumulator, flipping reverse negates both words exactly; inside (−A/2, A/2) the signed results are "
    "exact negatives; unsigned = signed when non-negative; otherwise the unsigned result is the accumulator Add(−other, A0), whose held value is A0 − other up to the "
    "single rounding bounded by C16's accum_add_step. Planimeter: segments_sum / _pos / _length / _vertices_only (one result line per polygon with ≥ 1 vertex). "
    "Earlier theorems kept: transit_eq_floor, transit_winding, transitdirect_parity, areaReduce_range/_cong/_flip/_neg_area, testPoint_eq_add_compute, "
    "testEdge_eq_add_compute, clear_is_init, polygon_eq, start_independent, reverse_traversal, cut_additive, edge_relabel, relabel_cong, area_relabel_invariant, "
    "crossings_swept, area_shift_invariant. Correspondence: the solver's answers reported on each line become a table Backend and Polygon.trace / PolygonF.trace "
    "are executed on the operation list; results, NumberPoints, CurrentPoint, first vertex, crossing parity and the held sums are compared at the property level "
    "after every operation, the record and the results bit for bit as drift. The metamorphic laws, the flag algebra, query-does-not-modify (every member), "
    "Test* = Add* + Compute on a copy, AddEdge-built = AddPoint-built, inspector functions, and Planimeter = API are oracles on the implementation.")

PROPS["C08"]["level_note"] = (
    "hand-written models of PolygonArea.cpp / PolygonArea.hpp (exact-sum and bit-level); the geodesic/rhumb solvers are kernels whose per-edge outputs are fed to "
    "the models as a table (their correctness is C01–C03/C09); AngDiff/AngNormalize/remainder/Math::sum/Accumulator::Add are the exact F64 models of C16 "
    "(accum_add_step imported from Props/C16); tools/Planimeter.cpp of the current tree is compiled into the harness; DMS/GeoCoords parsing is C10/C05 (the harness "
    "decodes the vertex text with the library). The relabel/shift theorems are on the ℚ-level edge contract; areaReduceAcc_* carry the window tests of the code as "
    "hypotheses (non-vacuity by decide); the T = real instantiation of AreaReduce (TestPoint/TestEdge) is modelled and compared bit for bit but has no flip theorem")

PROPS["C08"]["technique"] = (
    "Lean 4 proof (induction over operation lists, simulation relation, floor arithmetic over ℚ, case analysis on the executed binary64 model) + execution of the "
    "exact-sum and bit-level models on the implementation's histories + property-level oracles on the implementation and the tool")

PROPS["C08"]["assumptions"] = [
    "edges are unique shortest lines (ambiguous 180° edges are excluded from the metamorphic and edge-vs-point oracles, as the statement allows)",
    "TestEdge on an object without vertices returns (0, NaN, NaN) — the code's documented-by-comment behaviour — whereas AddEdge + Compute returns (0, 0, 0); the "
    "model follows the code and testEdge_eq_add_compute assumes a starting point",
    "CurrentPoint returns the longitude as given to AddPoint / as unrolled by AddEdge (the header says it is in [−180°, 180°]); the checks compare it with the stored value",
]

# seeded round 7 (C08G, C08H)
PROPS["C08"]["level_note"] = PROPS["C08"].get("level_note", "") + (
    " Added after seeded round 7: relation edge-unrolled-longitude (after AddEdge in polygon mode the stored longitude minus the previous one is the longitude the "
    "edge sweeps, judged from the reduced end longitude for edges of at most 2000 km below 75 degrees of latitude; current vertices outside [-180, 180] in a third "
    "of the edge-vs-point cases), stratum over-the-pole (two vertices on opposite meridians) and relation solvers-agree (PolygonAreaExact against the series back "
    "end on WGS84, areas modulo the ellipsoid area).")
