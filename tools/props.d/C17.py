import hashlib as _hl17, os as _os17

_verif17 = _os17.path.dirname(_os17.path.dirname(_os17.path.dirname(_os17.path.abspath(__file__))))


def _tools_digest17():
    # the harness compiles $GV_REPO/tools/IntersectTool.cpp and GeodesicProj.cpp into itself: the harness cache key must depend on their text
    h = _hl17.sha256()
    for f in ("IntersectTool.cpp", "GeodesicProj.cpp"):
        try:
            h.update(open(_os17.path.join(_os17.environ.get("GV_REPO", "/repo"), "tools", f), "rb").read())
        except OSError:
            h.update(b"missing:" + f.encode())
    return h.hexdigest()[:16]


PROPS["C17"] = dict(
    harnesses=[dict(name="C17", procs_quick=4, procs_thorough=16, timeout=3000,
                    extra=["-I" + _os17.path.join(_verif17, "harness", "C17_tools"), "-DGV_TOOLS_DIGEST=0x" + _tools_digest17()],
                    env={"ASAN_OPTIONS": "detect_leaks=0:abort_on_error=0:allocator_may_return_null=1"})],
    gens=["gen_intersect"],
    rule=("NearestNeighbor (dist_t = long long, exact): point sets of size 0…2000 from five metrics — L1 on a 9×9 grid (duplicates, ties), L1 on a 1000² grid, "
          "collinear points (triangle equality everywhere), Chebyshev on a 40² grid, GeodesicExact distance in mm rounded up (lat/lon on a ¼° lattice incl. poles and a "
          "dense cluster) — bucket sizes 0…10, query = a set member or a random point, k ∈ {−1, 0, 1, 2, 3, 5, 9, n, n+2}, maxdist ∈ {max, 0, 5 %…100 % of the diameter}, "
          "mindist ∈ {−1, 0, 2 %…90 % of the diameter}, exhaustive ∈ {true, false}, tol ∈ {0, 1…5}, searched directly and after text / binary / operator<< >> round trips; "
          "bulk runs (all copies × 8 parameter combinations × 16–40 queries per set); dist_t = double with GeodesicExact distances (random lat/lon with duplicates); "
          "Load of images with 0–3 token-level mutations (replace / delete / duplicate / swap / truncate / header fields) and of byte-corrupted text and binary images; a "
          "crafted image whose nodes share their children; trees built by Initialize for 0…400 points (all five metrics, bucket 0…10) against the Lean model of init. Projections: a ∈ {WGS84, 1, 6.4e6·u}, f ∈ {WGS84, 0, ±0.01}, series and exact geodesic back ends; centres at the "
          "poles, on the equator, random; points coincident with the centre, 1e-9…1 m away, random, near / beyond the gnomonic horizon, near-antipodal, on the central "
          "meridian, |dlon| = 90 / 180 / > 90, longitude wrap. Intersect: f ∈ {WGS84, 0, ±0.015} (+ exact back end for ±1/50); generic lines, intersection at the origin, "
          "nearly parallel (1e-9…1e-3°), coincident parallel / antiparallel with equal and displaced start points, meridians / lines through poles, equatorial lines, "
          "overlapping coincident segments, offsets p0 zero and non-zero, radii D1 < D2 up to 1.2 circumferences; helper functions on integer, half-circumference and "
          "random arguments. non-trivial = the model / oracle took a non-error path; distinct = distinct (op, leading arguments)"),
    tolerances={
        "NearestNeighbor (integer metrics)": "exact: index and distance lists equal to the Lean model of Search; distance list equal to the brute-force specification; TreeInv decided in Lean",
        "Initialize vs model init": "node arrays and cost equal (the pair order (distance, index) is total, so the tree does not depend on the nth_element implementation); a different tree is not an alarm if it satisfies TreeInv (counted as skipped)",
        "NearestNeighbor (double, GeodesicExact)": "distance lists within 160 nm (4 × the documented 40 nm of GeodesicExact: the computed metric obeys the triangle inequality only to round-off), counts equal",
        "Load accept/reject": "an image the Lean model of Load/Node::Check rejects must be rejected; an unmodified Save image must be accepted and searched identically; rejecting a corrupted image the model accepts is harmless (skipped)",
        "projection wrappers vs kernel values": "4e-16 relative (x, y, rk), azimuths and reverse positions bit-equal to the kernel values",
        "projection closures / defining geometry": "4 × documented geodesic accuracy (15 nm series for |f| ≤ 1/150, table of Geodesic.hpp beyond; GeodesicExact 40 nm), scaled by a/a_WGS84 and by the conditioning of the map (see harness/C17_proj.hpp)",
        "Intersect: point on both lines": "derived from the class's convergence tolerance d·eps^(3/4) and the geodesic accuracy, scaled with |x|,|y| in half-circuits (see harness/C17_isect.hpp)",
        "Intersect helpers": "1e-15 relative to the argument magnitudes (pure + − × /2 arithmetic)",
        "binary layout": "exact (bytes of Save(os, true) = model; byte-level and token-level models of Load read the same tree)",
    },
    level_text=("Theorems (Lean 4, all inputs). Nearest neighbour — about the executable model of NearestNeighbor::Search / Save / Load that the driver runs against the "
                "implementation on every sampled case (node array as stored, the two priority queues, tau, mindist/maxdist open/closed conventions, exhaustive, tol, fuel): "
                "search_is_bruteforce: for every metric space (dist x x = 0, symmetric, triangle inequality; integer-valued), point set, query, k, maxdist, mindist, with "
                "exhaustive = true and tol = 0, and every stored tree satisfying TreeInv (root of a finite tree; each index once; lower[l] ≤ d(v,p) ≤ upper[l] for the points of "
                "child l), the search terminates within numpoints pops and its distance list equals the k smallest distances of {d(p,q) : mindist < d ≤ maxdist}, ascending "
                "(pruning soundness from the triangle inequality, best-k heap invariant, fuel adequacy); search_returns_points: the returned items are (dist(pt i, q), i) for "
                "pairwise distinct i < numpoints (any query); search_nonexhaustive: with exhaustive = false at most k results, all in the window, and fewer than k results are all the points of the window; checkInv_sound: the executable invariant check run on every dumped tree implies TreeInv; save_load_roundtrip on "
                "the text token layout and save_load_roundtrip_binary on the byte layout (little-endian 32/64-bit two's complement fields); load_rejects: everything Load accepts passes the header checks and Node::Check with the child-before-parent bound (fix 49e729b) and names no node twice as a child (fix 90dea91); load_is_forest: in every accepted file child pointers go to smaller indices, no node has two parents and the two children of a node differ (what is missing for Load ⇒ TreeInv — bounds vs. the points, each index once — cannot be decided by Load, which does not see the points); "
                "init_establishes_inv: the model of NearestNeighbor::Initialize/init (vantage point to the front, distances, std::nth_element as a parameter constrained only by its post-condition NthSpec, min/max bounds, children before the parent, sorted bucket leaves, bucket = 0) produces, for every distance function, bucket size and point count, a node array satisfying TreeInv; nth_element_sort_spec: the full sort the driver uses is such an nth_element; "
                "init_wellformed: for non-negative distances that array also passes Node::Check node by node with the child-before-parent bound and shares no child, so save_load_roundtrip applies to every tree Initialize builds; "
                "nearest_neighbor_correct: Search on the tree built by Initialize returns the k smallest distances of the window, ascending — for every integer-valued metric, point set, bucket size, query, k, mindist, maxdist (exhaustive, tol = 0), with no hypothesis about the tree; nearest_neighbor_returns_points. "
                "Projections — exact-real theorems about the wrapper formulas around an arbitrary geodesic kernel (same terms the driver evaluates in binary64 on the kernel "
                "values of the real Geodesic object): azimuthal equidistant radius = s12, direction = azi1, rk = m12/s12 (1 at zero distance), Reverse∘Forward hands (azi1, s12) "
                "back to Direct (identity under the kernel contract Direct∘Inverse = id); gnomonic: NaN iff M12 ≤ 0, radius m12/M12, rk = M12, Newton step stationary exactly at "
                "ρ = m/M; Cassini–Soldner: sign cases, mirror symmetry, on-meridian azimuths. Intersect helpers: fixcoincident centres on p0 and minimises the L1 distance along "
                "the coincidence line; segmentmode = 0 iff the point lies within both segments. "
                "Correspondence only (no theorem): that the C++ init is the modelled one (op nn_init: the tree dumped by Save equals the model's init on every sampled point set; a differing tree would be accepted if it satisfies the decided TreeInv), dist_t = double, Gnomonic/Cassini reverse, "
                "the defining geometry of the projections (recomputed through Geodesic::Inverse/Direct), and everything about the Intersect tiling search (point on both "
                "lines, minimality against All and an independent scan, Next incl. coincident antiparallel lines, segment indicator, All complete / sorted / duplicate-free / "
                "monotone in the radius, coincidence flag). Partial: no theorem about Intersect::Closest/Next/Segment/All, none about the geodesic kernel itself (C01–C03)."),
    level_note=("hand-written models (Model/VPTree.lean, Model/GeodProj.lean, Model/IntersectFix.lean); no tables to regenerate (gens = []): the tie to the source is the "
                "in-process correspondence run (ASan+UBSan) on the real tree dumped through Save, the kernel values of the real Geodesic object and the private helpers of "
                "Intersect (-fno-access-control). "
                "Open findings on the unchanged tree (known_findings.json): F57 Intersect does not recognise some exactly coincident lines (c = 0, non-converged Newton), "
                "F59 Intersect::Next not minimal for nearly parallel lines on a prolate ellipsoid (series solver); repaired since the first build: F53 (shared children, 90dea91 — "
                "now part of the Load model), F54, F55, F56, F58, F60"),
    technique=("Lean 4 proof about the executable model of the vantage-point-tree search (induction over fuel with ghost trees, insertion-sort / k-best algebra, omega) and over ℝ "
               "for the projection wrappers (ring / linear_combination / Complex.arg) + exact correspondence of the model against the implementation + property-level oracles"),
    assumptions=["the geodesic kernel (Geodesic / GeodesicExact Inverse, Direct, Line) is trusted here (C01–C03)",
                 "std::priority_queue pops the lexicographic maximum of pair<dist_t,int> (its documented behaviour); ties in the index list are accepted if the distance lists agree",
                 "dist_t = long long arithmetic does not overflow for the generated distances (≤ 2e10)"],
)
