PROPS["C17"] = dict(
    harnesses=[dict(name="C17", procs_quick=4, procs_thorough=16)],
    gens=[],
    rule="(filled in below)",
    tolerances={},
    level_text="(filled in below)",
    level_note="",
    technique="",
    assumptions=[],
)
