import hashlib as _hl17, os as _os17

_verif17 = _os17.path.dirname(_os17.path.dirname(_os17.path.dirname(_os17.path.abspath(__file__))))


def _tools_digest17():
    # the harness compiles $GV_REPO/tools/IntersectTool.cpp and GeodesicProj.cpp into itself: the harness cache key must depend on their text
    h = _hl17.sha256()
    for f in ("IntersectTool.cpp", "GeodesicProj.cpp"):
        try:
            h.update(open(_os17.path.join(_os17.environ.get("GV_REPO", "/repo"), "tools", f), "rb").read())
        except OSError:
            h.update(b"missing:" + f.encode())
    return h.hexdigest()[:16]


PROPS["C17"] = dict(
    harnesses=[dict(name="C17", procs_quick=4, procs_thorough=16, timeout=3000,
                    extra=["-I" + _os17.path.join(_verif17, "harness", "C17_tools"), "-DGV_TOOLS_DIGEST=0x" + _tools_digest17()],
                    env={"ASAN_OPTIONS": "detect_leaks=0:abort_on_error=0:allocator_may_return_null=1"})],
    gens=["gen_intersect"],
    rule=("NearestNeighbor (dist_t = long long, exact): point sets of size 0…2000 from five metrics — L1 on a 9×9 grid (duplicates, ties), L1 on a 1000² grid, "
          "collinear points (triangle equality everywhere), Chebyshev on a 40² grid, GeodesicExact distance in mm rounded up (lat/lon on a ¼° lattice incl. poles and a "
          "dense cluster) — bucket sizes 0…10, query = a set member or a random point, k ∈ {−1, 0, 1, 2, 3, 5, 9, n, n+2}, maxdist ∈ {max, 0, 5 %…100 % of the diameter}, "
          "mindist ∈ {−1, 0, 2 %…90 % of the diameter}, exhaustive ∈ {true, false}, tol ∈ {0, 1…5}, searched directly and after text / binary / operator<< >> round trips; "
          "bulk runs (all copies × 8 parameter combinations × 16–40 queries per set); dist_t = double with GeodesicExact distances (random lat/lon with duplicates); "
          "Load of images with 0–3 token-level mutations (replace / delete / duplicate / swap / truncate / header fields) and of byte-corrupted text and binary images; a "
          "crafted image whose nodes share their children; trees built by Initialize for 0…400 points (all five metrics, bucket 0…10) against the Lean model of init. Projections: a ∈ {WGS84, 1, 6.4e6·u}, f ∈ {WGS84, 0, ±0.01}, series and exact geodesic back ends; centres at the "
          "poles, on the equator, random; points coincident with the centre, 1e-9…1 m away, random, near / beyond the gnomonic horizon, near-antipodal, on the central "
          "meridian, |dlon| = 90 / 180 / > 90, longitude wrap. Intersect: f ∈ {WGS84, 0, ±0.015} (+ exact back end for ±1/50); generic lines, intersection at the origin, "
          "nearly parallel (1e-9…1e-3°), coincident parallel / antiparallel with equal and displaced start points, meridians / lines through poles, equatorial lines, "
          "overlapping coincident segments, offsets p0 zero and non-zero, radii D1 < D2 up to 1.2 circumferences; helper functions on integer, half-circumference and "
          "random arguments. Intersect search model (ops ixs_*): the same line / ellipsoid / segment strata, every query with the table of Basic values on the 3×3 (Closest, Segment + the "
          "4 corners), 5×5 (Next) or the m2 tile (All, radii 0 … 1.6 circumferences, also 0, negative, NaN) start points, the ConjugateDist values along every coincidence line, Basic itself "
          "with the trace of its Spherical values from starts of the same queries and random ones; SetComp / RankPoint / Dist on point pairs within, at and beyond δ in L1 and in x, exact "
          "ties in the rank, δ ∈ {14813 m, 1e-3…1e5}; the constants of 16 ellipsoids and the constructor for f ∈ [−1, 0.99]; all overloads (lat/lon/azi vs GeodesicLine, with / without "
          "c, default p0). Tools: IntersectTool −c/−o/−n/−i, −R, −w, −E, −p and GeodesicProj −z/−c/−g, −r, −w compiled from the current tools/*.cpp. NearestNeighbor "
          "Statistics / ResetStatistics / swap with a counting metric. Projections also through the short overloads, the inspectors and a Reset history of CassiniSoldner. "
          "non-trivial = the model / oracle took a non-error path; distinct = distinct (op, leading arguments)"),
    tolerances={
        "NearestNeighbor (integer metrics)": "exact: index and distance lists equal to the Lean model of Search; distance list equal to the brute-force specification; TreeInv decided in Lean",
        "Initialize vs model init": "node arrays and cost equal (the pair order (distance, index) is total, so the tree does not depend on the nth_element implementation); a different tree is not an alarm if it satisfies TreeInv (counted as skipped)",
        "NearestNeighbor (double, GeodesicExact)": "distance lists within 160 nm (4 × the documented 40 nm of GeodesicExact: the computed metric obeys the triangle inequality only to round-off), counts equal",
        "Load accept/reject": "an image the Lean model of Load/Node::Check rejects must be rejected; an unmodified Save image must be accepted and searched identically; rejecting a corrupted image the model accepts is harmless (skipped)",
        "projection wrappers vs kernel values": "4e-16 relative (x, y, rk), azimuths and reverse positions bit-equal to the kernel values",
        "projection closures / defining geometry": "4 × documented geodesic accuracy (15 nm series for |f| ≤ 1/150, table of Geodesic.hpp beyond; GeodesicExact 40 nm), scaled by a/a_WGS84 and by the conditioning of the map (see harness/C17_proj.hpp)",
        "Intersect: point on both lines": "derived from the class's convergence tolerance d·eps^(3/4) and the geodesic accuracy, scaled with |x|,|y| in half-circuits (see harness/C17_isect.hpp)",
        "Intersect helpers": "1e-15 relative to the argument magnitudes (pure + − × /2 arithmetic)",
        "Intersect search model (ixs_*)": "discrete outputs exact: coincidence indicator, segmode, number of points of All, NumBasic / NumChange / NumCorner / NumOverride / NumInverse increments, SetComp / RankPoint verdicts; coordinates 4e-16 relative (the model performs the same additions as the code; Intersect::Dist bit-exact); if the model of AllInt0 and the implementation differ while SetComp is not a strict weak order on the points of the query the case is skipped (std::set has no specified behaviour there) and left to the oracles all-duplicate / all-complete",
        "overloads": "bit-identical results of the documented-equivalent overloads (Intersect: lat/lon/azi vs GeodesicLine, with / without c, default p0; projections: with / without azimuth and scale)",
        "tools": "character-for-character equality of the tool output with the library answer formatted by Utility::str at the requested precision (input decoded with the same DMS / Utility functions)",
        "NearestNeighbor statistics": "exact: setupcost / searchcost / mincost / maxcost / numsearches equal the counts of a counting distance functor",
        "binary layout": "exact (bytes of Save(os, true) = model; byte-level and token-level models of Load read the same tree)",
    },
    level_text=("Theorems (Lean 4, all inputs). Nearest neighbour — about the executable model of NearestNeighbor::Search / Save / Load that the driver runs against the "
                "implementation on every sampled case (node array as stored, the two priority queues, tau, mindist/maxdist open/closed conventions, exhaustive, tol, fuel): "
                "search_is_bruteforce: for every metric space (dist x x = 0, symmetric, triangle inequality; integer-valued), point set, query, k, maxdist, mindist, with "
                "exhaustive = true and tol = 0, and every stored tree satisfying TreeInv (root of a finite tree; each index once; lower[l] ≤ d(v,p) ≤ upper[l] for the points of "
                "child l), the search terminates within numpoints pops and its distance list equals the k smallest distances of {d(p,q) : mindist < d ≤ maxdist}, ascending "
                "(pruning soundness from the triangle inequality, best-k heap invariant, fuel adequacy); search_returns_points: the returned items are (dist(pt i, q), i) for "
                "pairwise distinct i < numpoints (any query); search_nonexhaustive: with exhaustive = false at most k results, all in the window, and fewer than k results are all the points of the window; checkInv_sound: the executable invariant check run on every dumped tree implies TreeInv; save_load_roundtrip on "
                "the text token layout and save_load_roundtrip_binary on the byte layout (little-endian 32/64-bit two's complement fields); load_rejects: everything Load accepts passes the header checks and Node::Check with the child-before-parent bound (fix 49e729b) and names no node twice as a child (fix 90dea91); load_is_forest: in every accepted file child pointers go to smaller indices, no node has two parents and the two children of a node differ (what is missing for Load ⇒ TreeInv — bounds vs. the points, each index once — cannot be decided by Load, which does not see the points); "
                "init_establishes_inv: the model of NearestNeighbor::Initialize/init (vantage point to the front, distances, std::nth_element as a parameter constrained only by its post-condition NthSpec, min/max bounds, children before the parent, sorted bucket leaves, bucket = 0) produces, for every distance function, bucket size and point count, a node array satisfying TreeInv; nth_element_sort_spec: the full sort the driver uses is such an nth_element; "
                "init_wellformed: for non-negative distances that array also passes Node::Check node by node with the child-before-parent bound and shares no child, so save_load_roundtrip applies to every tree Initialize builds; "
                "nearest_neighbor_correct: Search on the tree built by Initialize returns the k smallest distances of the window, ascending — for every integer-valued metric, point set, bucket size, query, k, mindist, maxdist (exhaustive, tol = 0), with no hypothesis about the tree; nearest_neighbor_returns_points. "
                "Projections — exact-real theorems about the wrapper formulas around an arbitrary geodesic kernel (same terms the driver evaluates in binary64 on the kernel "
                "values of the real Geodesic object): azimuthal equidistant radius = s12, direction = azi1, rk = m12/s12 (1 at zero distance), Reverse∘Forward hands (azi1, s12) "
                "back to Direct (identity under the kernel contract Direct∘Inverse = id); gnomonic: NaN iff M12 ≤ 0, radius m12/M12, rk = M12, Newton step stationary exactly at "
                "ρ = m/M; Cassini–Soldner: sign cases, mirror symmetry, on-meridian azimuths. Intersect helpers: fixcoincident centres on p0 and minimises the L1 distance along "
                "the coincidence line; segmentmode = 0 iff the point lies within both segments. "
                "Intersect search — theorems about the kernel-parametric model Model/IntersectSearch.lean (Basic's iteration skeleton, ClosestInt, NextInt, SegmentInt, AllInt0 with the skip flags, the de-duplication set and the final sort, SetComp::eq / operator() / RankPoint / Dist; start tables ix, iy and numit_ taken from the current source through Gen/IntersectC.lean), i.e. about the definitions the driver executes on the tables of Basic / Spherical / ConjugateDist values of the real object, for EVERY kernel: "
                "setcomp_incomparable_iff_eq (incomparability of SetComp::operator() is SetComp::eq, also for the comparator before d3a4710), setcomp_strict_weak_order (the repaired comparator is irreflexive, asymmetric, transitive with transitive incomparability on every Consistent point set), setcomp_consistent_of_gapped (a checkable sufficient condition; non-vacuous: exS_gapped), setcomp_old_not_strict_weak_order (explicit 3-point gapped set on which the old comparator has P ~ Q, Q < R, R < P while the repaired one is consistent — what F58 was), setcomp_not_transitive_in_general (a 3-cycle of the REPAIRED comparator on points whose x differ by δ/2 … δ: a residual weakness outside Consistent sets), rankpoint_refines_dist; "
                "basic_converged_unless_capped (at most numit_ kernel calls; a return before the cap means c ≠ 0 or a last step ≤ tol) and basic_can_fail_silently (a kernel exists for which Basic returns c = 0 at the cap with the next step still > tol: the mechanism of F57 as a theorem); "
                "closest_minimal_among_visited (Closest returns fixcoincident(p0, Basic(s)) of a visited start and is within δ of minimal among the answers of all visited starts, also after the early exit; never the unset point), next_minimal_among_candidates (Next returns (∞, 0) or a candidate of a visited start and is not farther than any candidate of any visited start; candidates exclude the origin class: next_excludes_origin); "
                "segment_segmode_zero_iff / segment_segmode_sides (for the full SegmentInt incl. the corner override: the returned segmode is 3 kx + ky of the returned point, 0 iff it lies within both segments); "
                "all_sorted_within_maxdist (All is sorted by Dist(·, p0) and within maxdist, unconditionally), all_duplicate_free (no two listed points within δ, for kernels whose answers stay in a set on which SetComp is transitive); "
                "completeness under the stated contract of Basic (never reports coincidence; answers within ε ≤ δ of intersections; intersections 2·_t1 apart; a start within the capture radius of an intersection converges to it): closest_complete (no intersection within 2·_d1 of p0 is closer than the result by more than ε + δ, whatever was pruned and whether or not the loop left early), next_complete (likewise for _d2 ≤ |a|₁ ≤ 3·_d2, to ε), all_complete_partial (every intersection with Dist + ε ≤ maxdist is listed: covering lemma allStarts_cover for the m×m tile grid, soundness of the pruning test and of the de-duplication) and intersect_complete_of_capture (one contract with capture radius _d3 on an object that passed the constructor check gives all three, with m = ⌈maxdistx/_d3⌉); all_starts_count (the grid has exactly m2 = m² + (m−1) mod 2 starts); non-vacuity: exContract (two intersections, nearest-point kernel). "
                "Table certificates re-checked against the current source on every run: intersect_constants_of_source (pruning thresholds 2·t1 − d − δ, early-exit radius t1, corner radius 2·t1, maxdistx, _d1 = _t2/2, _d2 = 2·_t3/3, _d3 = _t4 − δ, the constructor check, _eps = 3ε, exponents 3/4 and 1/5), intersect_start_tables; the covering lemmas closestStarts_cover / nextStarts_cover are proved for the ix, iy tables of the current source. "
                "Correspondence only (no theorem): that the C++ init is the modelled one (op nn_init: the tree dumped by Save equals the model's init on every sampled point set; a differing tree would be accepted if it satisfies the decided TreeInv), dist_t = double, Gnomonic/Cassini reverse, "
                "the defining geometry of the projections (recomputed through Geodesic::Inverse/Direct), that the C++ searches are the modelled ones (ops ixs_*: result, c, segmode, the whole list of All and the five diagnostic counters reproduced on every sampled query), and the numeric kernels of Intersect themselves (Spherical, ConjugateDist, the constants _t1…_t5): point on both "
                "lines, minimality against All and an independent scan, Next incl. coincident antiparallel lines, All complete / sorted / duplicate-free / "
                "monotone in the radius, coincidence flag are oracles on the implementation. Partial: completeness of All is proved for kernels that never report coincidence (c ≠ 0: the conjugate-point loop and the erasure along the coincidence line are modelled and executed, not proved complete); that the real Basic satisfies the contract (capture radius, separation of intersections) is geometry of the ellipsoid and is not proved; none about the geodesic kernel itself (C01–C03)."),
    level_note=("hand-written models (Model/VPTree.lean, Model/GeodProj.lean, Model/IntersectFix.lean, Model/IntersectSearch.lean); Gen/IntersectC.lean (gen_intersect: ix/iy start tables, numit_, the defining expressions of the spacings and thresholds as coefficient vectors) is regenerated from the current Intersect.cpp/.hpp on every run; otherwise the tie to the source is the "
                "in-process correspondence run (ASan+UBSan) on the real tree dumped through Save, the kernel values of the real Geodesic object and the private helpers of "
                "Intersect (-fno-access-control). "
                "Open finding on the unchanged tree (known_findings.json): F57 Intersect does not recognise some coincident lines — class sharpened to the decidable tags [exactly-coincident-lines] / [basic-not-converged] the harness puts on every #BAD line (mechanisms: Spherical's coincidence test below the noise of the Inverse azimuths ⇒ Basic oscillates to the iteration cap, basic_can_fail_silently; direction test to 3 eps on the coincidence line); no small safe repair (threshold variants measured). "
                "F59 (Next not minimal on a prolate ellipsoid) was a symptom of F55 (a NaN from Geodesic::Inverse silently dropped one start of NextInt) and is repaired by 48445e6: not reproduced in 860 000 targeted queries. Repaired since the first build: F53 (shared children, 90dea91 — "
                "now part of the Load model), F54, F55, F56, F58 (the comparator theorems above), F60"),
    technique=("Lean 4 proof about the executable model of the vantage-point-tree search (induction over fuel with ghost trees, insertion-sort / k-best algebra, omega) and over ℝ "
               "for the projection wrappers (ring / linear_combination / Complex.arg) and for the Intersect search (loop invariants by induction over the start list, L1 triangle inequality, covering of the L1 ball by the start grid in rotated coordinates with Int.floor, linarith) + table certificates by decide +kernel on Gen + exact correspondence of the models against the implementation + property-level oracles"),
    assumptions=["the geodesic kernel (Geodesic / GeodesicExact Inverse, Direct, Line) is trusted here (C01–C03)",
                 "std::priority_queue pops the lexicographic maximum of pair<dist_t,int> (its documented behaviour); ties in the index list are accepted if the distance lists agree",
                 "dist_t = long long arithmetic does not overflow for the generated distances (≤ 2e10)",
                 "std::set<XPoint, SetComp> behaves as a sorted duplicate-free list when the comparator is a strict weak order on the points inserted (its documented contract); Intersect::Basic is deterministic (the kernel tables are obtained by calling it again on the same start points)",
                 "the completeness theorems for Closest / Next / All are conditional on the stated contract of Basic (capture radius _d3, separation 2·_t1 of intersections), which is geometry of the ellipsoid and not proved here"],
)
