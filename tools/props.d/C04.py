# C04: deepening round (coverage audit: UTMShift / EquatorialRadius / Flattening, GeoCoords UTM/UPS glue, GeoConvert -u / -c values)
import hashlib as _hl, os as _os

_verif = _os.path.dirname(_os.path.dirname(_os.path.dirname(_os.path.abspath(__file__))))
_repo = _os.environ.get("GV_REPO", "/repo")


def _tool_digest():
    # harness/C04.cpp compiles $GV_REPO/tools/GeoConvert.cpp into itself: the harness cache key must depend on its text
    try:
        return _hl.sha256(open(_os.path.join(_repo, "tools", "GeoConvert.cpp"), "rb").read()).hexdigest()[:16]
    except OSError:
        return "0"


_P = PROPS["C04"]
_P["harnesses"] = [dict(name="C04", procs_quick=2, procs_thorough=16,
                        extra=["-I" + _os.path.join(_verif, "harness", "C10_tools"), "-DGV_TOOLS_DIGEST=0x" + _tool_digest()])]
_P["gens"] = ["gen_math", "gen_utm"]
_P["rule"] += ("; deepening round: requested zones whose central meridian is 45 / 60 / 90 / 120 / 180° away (either side, ± 1 ulp) at latitudes ±0, ±1e-9, 1e-300, ±45, 80, 89, ±90 (stratum fwd-far-zone); central meridians 6·zone − 183 (+360k) and both poles (documented x = 500 km / 2000 km, γ = 0, k = 0.9996 / 0.994); "
               "utm_consts (UTMShift, EquatorialRadius, Flattening of UTMUPS / MGRS / the two projections); GeoCoords objects built from (lat, lon[, zone]) "
               "(strata geocoords-latlon: the lat/lon strata above, ±0, ±1e-300, zone request STANDARD / UTM / neighbour) and from (zone, northp, x, y) "
               "(geocoords-utmups: inside the ranges, the equator under both labels, northings continued across the equator up to 9000 / 9500 km — "
               "FixHemisphere —, 1e-9 m either side of the equator, 1 mm around the poles, NaN, zones −4 / −1 / 61), followed by SetAltZone(a) with "
               "a ∈ {MATCH, STANDARD, UTM, the standard zone ± 1, 0, INVALID, −5, 61} and a second SetAltZone on the same object (history), all Alt* accessors and the "
               "six UTMUPSRepresentation / AltUTMUPSRepresentation overloads at prec −6…10, abbrev on/off; tools/GeoConvert (compiled from the tree, in-process) -u / -c "
               "with none / -s / -t / -S / -T / -z <zone> / -z <zone+hemisphere> (zone within ±1 of the point's, 0), -p −6…10, -l, -l -a, -n on 1–4 input lines "
               "(lat lon on a 2^-10° grid incl. zone and band edges; zone+hemisphere easting northing on a 1/64 m grid incl. the equator under both labels and "
               "continued northings; MGRS strings of every precision), strata geoconvert-{u,c}[-s|-t|-z]")
_P["tolerances"].update({
    "documented-* oracles (ranges, false origins, zone rule, zone-string grammar, EPSG, UTMShift, WGS84, 0.9996 / 0.994, 6·zone − 183)": "exact against the numbers of UTMUPS.hpp written into harness/C04_doc.hpp (no table of the library is read); k within 2.4e-13 (4 × 6e-14), γ within 1e-13° on the central meridian",
    "GeoCoords accessors vs UTMUPS::Forward / Reverse": "bit-equal (FixHemisphere: northing ∓ 10^7 m exactly)",
    "SetAltZone vs the model (kernel = the implementation's own Forward)": "bit-equal",
    "alternate coordinates denote the point / equal Forward(lat, lon, setzone = AltZone)": "40 nm within 30° of the central meridian (2 × 4 × 5 nm: one closure each way)",
    "UTMUPSRepresentation / GeoConvert -u fields": "zone+hemisphere field exact; max(0, prec) decimals; value within half a unit of 10^-prec m (+ 4 ulp); multiples of 10^-prec m for prec < 0; -c: half a unit of the last printed digit",
})
_P["level_text"] += (
    " DEEPENING ROUND. Coverage audit (every public function of UTMUPS and the UTM/UPS glue of GeoCoords against the property text): never called before and now exercised — "
    "UTMUPS::UTMShift / EquatorialRadius / Flattening (op utm_consts), GeoCoords(lat, lon, zone), GeoCoords(zone, northp, x, y) incl. FixHemisphere, SetAltZone, AltZone / AltEasting / "
    "AltNorthing / AltConvergence / AltScale, Hemisphere / Zone / Northp, UTMUPSRepresentation and AltUTMUPSRepresentation (both overloads each, abbrev on/off) (op gc_alt, with a second "
    "SetAltZone on the same object), tools/GeoConvert -u / -c with -z -s -t -S -T -p -l -a -n (op gconv: the printed values against the conversion classes). "
    "DOCUMENTED FACTS AS ORACLES INDEPENDENT OF THE TABLES (harness/C04_doc.hpp holds the numbers of UTMUPS.hpp; a changed table or constant now gives a failing input, not only a broken "
    "Gen obligation): documented-range on Forward (result inside, no throw strictly inside), Reverse and Transfer (with and without mgrslimits), documented-false-origin (500 km; 0 / 10 000 km; "
    "2000 km), documented-central-meridian (x = 500 km exactly, γ = 0, k = 0.9996 at 6·zone − 183), documented-pole (2000 km, 0.994), documented-hemisphere, documented-zone-rule (the rule "
    "written out on doubles: UPS outside [−80, 84), Norway 56 ≤ φ < 64 ∧ 3 ≤ λ < 6 → 32, Svalbard φ ≥ 72 ∧ 0 ≤ λ < 42 → 31/33/35/37 at 9/21/33), documented-shift (same-zone Transfer = "
    "identity up to 10^7 m exactly), documented-zone-grammar (DecodeZone accepts exactly [1..60 in ≤ 2 digits](n|s|north|south) | (n|s|north|south) | inv | invalid, case-insensitively, ≤ 7 bytes; "
    "EncodeZone writes the two-digit form), documented-epsg (32601–32660, 32661, 32701–32760, 32761), documented-constant (UTMShift = 10^7, a = 6378137, f = 1/298.257223563, k0). "
    "NEW THEOREMS (Props/C04.lean, 61 in all). Gen (re-checked against the source each run): mgrs_constants_documented (every integer constant of MGRS.hpp extracted into Gen.UTM and "
    "zMAXPSEUDOZONE have the documented values; utmNshift = (maxutmSrow − minutmNrow)·tile = 10^7), range_tables_from_constants (the six UTMUPS tables are the expressions of UTMUPS.cpp in "
    "those constants), range_tables_agree (UTMUPS limits = MGRS tile limits × tile), continued_ranges (the continued northing limits are the natural ones ∓ 10^7), utmShift_documented, "
    "wgs84_documented (a exactly; |f·298257223563 − 10^9| ≤ 2^-20 evaluated in dyadic arithmetic inside the kernel). With range_tables, zone_consts, epsg_decode_spec and C05's "
    "letter_tables_documented / scale_constants_documented / mgrs_range_tables every definition of Gen/UTM.lean is now pinned by an obligation. GeoCoords (kernel-parametric, every "
    "Forward / Reverse): fixHemisphere_spec (agreeing label: unchanged; contradicting: flipped with northing ± UTMShift for UTM, error for UPS), fixHemisphere_agrees (afterwards the label "
    "agrees with the latitude; idempotent), ge_or_lt_zero, resetUTM_spec, setAltZone_match, setAltZone_spec (request resolved by StandardZone at the object's (lat, lon); own zone ⇒ copy; other "
    "zone ⇒ Forward's zone, easting, convergence, scale and Forward's northing re-expressed under the object's hemisphere label — altNorthing, fix 46b5aee), setAltZone_is_forward (the "
    "alternate coordinates are those of UTMUPS::Forward at the same (lat, lon) with setzone = the alternate zone, for every kernel under which the object's own coordinates are Forward's), "
    "setAltZone_zone, forward_explicit_zone (Forward with a request that resolves to z is Forward with z requested: discharges that hypothesis for objects built from (lat, lon)), relabel_spec "
    "(the representation overloads with a hemisphere argument). The models fixHemisphere / resetUTM / setAltZone are executed against the implementation in op gc_alt (bit-exact, incl. the second "
    "request of a history). FINDINGS of this round: F83 (SetAltZone dropped Forward's hemisphere: on the equator with the southern label the alternate northing was 10 000 km off; repaired 46b5aee, "
    "model and theorems follow) and F94 (Forward returned NaN coordinates, without an exception, at latitude 0 exactly 90° west of a requested zone's central meridian: its 60° guard was one-sided; repaired f1d86bf, "
    "the model's test is two-sided; oracle forward-finite and stratum fwd-far-zone keep the class under watch). NOT PROVED: that the object's coordinates after GeoCoords(zone, northp, x, y) are Forward's (closure of the projections: C06/C11; checked to 40 nm); the text of the "
    "representations (C10); GeoConvert's option parsing (values checked per sampled command line only). Observation (not an alarm): UTMUPS::Forward also refuses points more than 60° from the central "
    "meridian / 20° from the pole with its own message, which the header does not mention and which is not implied by the ranges near a pole; the documented-range oracle leaves these out.")
_P["level_note"] += ("; harness/C04_doc.hpp: the numbers of UTMUPS.hpp / MGRS.hpp / the EPSG registry written out by hand (trusted as a transcription of the documentation); "
                     "tools/GeoConvert.cpp compiled from the current tree into the harness (usage stub harness/C10_tools), its options interpreted as GeoConvert(1) documents them")
