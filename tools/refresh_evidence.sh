#!/bin/bash
# run every claimed check (quick) on the clean tree so that the committed evidence files come from /repo as it is
cd /verif; git -C /repo status --short | grep -v "^??" && { echo "/repo has local modifications"; exit 1; }
for p in $(python3 -c "import json;print(' '.join(c['property_id'] for c in json.load(open('MANIFEST.json'))['checks']))"); do
  ./check $p quick | tail -1
done
