#!/usr/bin/env python3
"""Orchestration for the GeoVerif checks: build the library from /repo's current
working tree, regenerate the Lean `Gen/` modules, build and audit the Lean
obligations, run the correspondence harness through the Lean driver, decide,
write evidence, print VIOLATION / KNOWN-FINDING lines."""
import fcntl, glob, hashlib, json, os, re, shutil, subprocess, sys, time

VERIF = os.path.dirname(os.path.dirname(os.path.abspath(__file__)))
REPO = os.environ.get("GV_REPO", "/repo")
CACHE = os.path.join(VERIF, "_cache")
LEAN = os.path.join(VERIF, "lean")
NCPU = os.cpu_count() or 4

CXX = "g++"
FLAVORS = {
    "asan": ["-std=c++17", "-O1", "-g", "-fsanitize=address,undefined,float-cast-overflow,float-divide-by-zero", "-fno-sanitize=float-divide-by-zero", "-fno-sanitize-recover=all",
             "-fno-omit-frame-pointer"],
    "plain": ["-std=c++17", "-O2"],
    "tsan": ["-std=c++17", "-O1", "-g", "-fsanitize=thread"],
}
FLAVOR_CXX = {"tsan": "clang++-14"}

ALLOWED_AXIOMS = {"propext", "Classical.choice", "Quot.sound"}


def sh(cmd, **kw):
    return subprocess.run(cmd, stdout=subprocess.PIPE, stderr=subprocess.STDOUT, text=True, **kw)


def sha(*parts):
    h = hashlib.sha256()
    for p in parts:
        h.update(p if isinstance(p, bytes) else p.encode())
        h.update(b"\0")
    return h.hexdigest()[:24]


def fread(p):
    with open(p, "rb") as f:
        return f.read()


class Lock:
    def __init__(self, name):
        os.makedirs(CACHE, exist_ok=True)
        self.path = os.path.join(CACHE, name + ".lock")

    def __enter__(self):
        self.f = open(self.path, "w")
        fcntl.flock(self.f, fcntl.LOCK_EX)
        return self

    def __exit__(self, *a):
        fcntl.flock(self.f, fcntl.LOCK_UN)
        self.f.close()


# --------------------------------------------------------------------------
# library build from the current working tree
# --------------------------------------------------------------------------

def include_dir():
    inc = os.path.join(CACHE, "inc")
    d = os.path.join(inc, "GeographicLib")
    os.makedirs(d, exist_ok=True)
    cfg = """#define GEOGRAPHICLIB_VERSION_STRING "2.5"
#define GEOGRAPHICLIB_VERSION_MAJOR 2
#define GEOGRAPHICLIB_VERSION_MINOR 5
#define GEOGRAPHICLIB_VERSION_PATCH 0
#define GEOGRAPHICLIB_DATA "/usr/local/share/GeographicLib"
#define GEOGRAPHICLIB_HAVE_LONG_DOUBLE 1
#define GEOGRAPHICLIB_WORDS_BIGENDIAN 0
#define GEOGRAPHICLIB_PRECISION 2
#if !defined(GEOGRAPHICLIB_SHARED_LIB)
#define GEOGRAPHICLIB_SHARED_LIB 0
#endif
"""
    p = os.path.join(d, "Config.h")
    if not os.path.exists(p) or open(p).read() != cfg:
        open(p, "w").write(cfg)
    return inc


def headers_hash():
    h = hashlib.sha256()
    for p in sorted(glob.glob(os.path.join(REPO, "include/GeographicLib/*.h*")) +
                    glob.glob(os.path.join(REPO, "src/*.h*"))):
        h.update(p.encode()); h.update(fread(p))
    return h.hexdigest()


def build_lib(flavor="asan"):
    """Compile /repo/src/*.cpp (as they are now) into a static archive; object cache keyed by content."""
    inc = include_dir()
    flags = FLAVORS[flavor] + ["-DGEOGRAPHICLIB_VERIF=1", "-I" + inc, "-I" + os.path.join(REPO, "include")]
    cxx = FLAVOR_CXX.get(flavor, CXX)
    hh = headers_hash()
    objdir = os.path.join(CACHE, "obj", flavor)
    os.makedirs(objdir, exist_ok=True)
    srcs = sorted(glob.glob(os.path.join(REPO, "src/*.cpp")))
    objs, jobs = [], []
    for s in srcs:
        key = sha(fread(s), hh, " ".join(flags), cxx)
        o = os.path.join(objdir, os.path.basename(s)[:-4] + "-" + key + ".o")
        objs.append(o)
        if not os.path.exists(o):
            jobs.append((s, o))
    with Lock("lib-" + flavor):
        jobs = [(s, o) for (s, o) in jobs if not os.path.exists(o)]
        procs = []
        errs = []
        def reap(block):
            for (p, s, o) in list(procs):
                if block or p.poll() is not None:
                    outp = p.communicate()[0]
                    if p.returncode != 0:
                        errs.append((s, outp))
                    else:
                        os.replace(o + ".tmp", o)
                    procs.remove((p, s, o))
        for (s, o) in jobs:
            while len(procs) >= NCPU:
                reap(False); time.sleep(0.02)
            p = subprocess.Popen([cxx] + flags + ["-c", s, "-o", o + ".tmp"], stdout=subprocess.PIPE,
                                 stderr=subprocess.STDOUT, text=True)
            procs.append((p, s, o))
        while procs:
            reap(True)
        if errs:
            raise BuildError("library does not compile: " + errs[0][0] + "\n" + errs[0][1][-3000:])
        libkey = sha(*objs)
        lib = os.path.join(CACHE, "lib", f"libgeo-{flavor}-{libkey}.a")
        if not os.path.exists(lib):
            os.makedirs(os.path.dirname(lib), exist_ok=True)
            r = sh(["ar", "rcs", lib + ".tmp"] + objs)
            if r.returncode != 0:
                raise BuildError("ar failed: " + r.stdout)
            os.replace(lib + ".tmp", lib)
            # prune old archives / objects of this flavor
            for old in glob.glob(os.path.join(CACHE, "lib", f"libgeo-{flavor}-*.a")):
                # keep recent ones: a concurrent check of another tree (GV_REPO) may be about to link against its archive
                if old != lib and time.time() - os.path.getmtime(old) > 3600:
                    os.remove(old)
            keep = set(objs)
            for old in glob.glob(os.path.join(objdir, "*.o")):
                if old not in keep and time.time() - os.path.getmtime(old) > 3600:
                    os.remove(old)
    return lib, flags, cxx


class BuildError(Exception):
    pass


def build_harness(name, flavor="asan", extra=None):
    lib, flags, cxx = build_lib(flavor)
    src = os.path.join(VERIF, "harness", name + ".cpp")
    hdrs = b"".join(fread(h) for h in sorted(glob.glob(os.path.join(VERIF, "harness", "*.hpp"))))
    key = sha(fread(src), hdrs, lib, " ".join(flags), " ".join(extra or []))
    bindir = os.path.join(CACHE, "bin")
    os.makedirs(bindir, exist_ok=True)
    exe = os.path.join(bindir, f"{name}-{flavor}-{key}")
    if not os.path.exists(exe):
        with Lock("harness-" + name + flavor):
            if not os.path.exists(exe):
                cmd = [cxx] + flags + ["-fno-access-control", "-I" + os.path.join(VERIF, "harness"), "-I" + os.path.join(REPO, "src"),
                                       src, lib, "-o", exe + ".tmp", "-lpthread"] + (extra or [])
                r = sh(cmd)
                if r.returncode != 0:
                    raise BuildError("harness does not compile against the current tree:\n" + r.stdout[-4000:])
                os.replace(exe + ".tmp", exe)
                for old in glob.glob(os.path.join(bindir, f"{name}-{flavor}-*")):
                    if old != exe and not old.endswith(".tmp"):
                        os.remove(old)
    return exe


# --------------------------------------------------------------------------
# Lean side
# --------------------------------------------------------------------------

def translate():
    """Regenerate lean/GeoVerif/Gen/*.lean from the current sources."""
    r = sh([sys.executable, os.path.join(VERIF, "tools", "translate.py"), REPO, os.path.join(LEAN, "GeoVerif", "Gen")])
    return r.returncode == 0, r.stdout


def lake_build(targets, timeout=3000):
    with Lock("lake"):
        r = sh(["lake", "build"] + targets, cwd=LEAN, timeout=timeout)
    return r.returncode == 0, r.stdout


def driver_path():
    return os.path.join(LEAN, ".lake", "build", "bin", "gvdriver")


THEOREM_RE = re.compile(r"^\s*(?:@\[[^\]]*\]\s*)?(?:protected\s+|private\s+)?theorem\s+([A-Za-z_][A-Za-z0-9_.']*)", re.M)
NAMESPACE_RE = re.compile(r"^\s*namespace\s+(\S+)", re.M)


def props_theorems(pid):
    """Names of all theorems declared in Props/<pid>.lean (the property obligations)."""
    p = os.path.join(LEAN, "GeoVerif", "Props", pid + ".lean")
    txt = open(p).read()
    # strip block comments
    txt_nc = re.sub(r"/-.*?-/", "", txt, flags=re.S)
    txt_nc = re.sub(r"--.*", "", txt_nc)
    ns = NAMESPACE_RE.search(txt_nc)
    prefix = ns.group(1) + "." if ns else ""
    return [prefix + m for m in THEOREM_RE.findall(txt_nc)]


FORBIDDEN = re.compile(r"\bsorry\b|\badmit\b|^\s*axiom\s|native_decide|bv_decide|implemented_by|\bunsafe\s|maxHeartbeats\s+0\b", re.M)


def lean_sources_for(pid):
    """Lean files whose text is scanned for forbidden constructs (whole library: it is small)."""
    out = []
    for root, _, files in os.walk(os.path.join(LEAN, "GeoVerif")):
        for f in files:
            if f.endswith(".lean"):
                out.append(os.path.join(root, f))
    return out


def grep_forbidden(pid):
    hits = []
    for p in lean_sources_for(pid):
        txt = open(p).read()
        txt_nc = re.sub(r"/-.*?-/", lambda m: "\n" * m.group(0).count("\n"), txt, flags=re.S)
        txt_nc = re.sub(r"--.*", "", txt_nc)
        txt_nc = re.sub(r'"(?:[^"\\]|\\.)*"', '""', txt_nc)
        for m in FORBIDDEN.finditer(txt_nc):
            line = txt_nc.count("\n", 0, m.start()) + 1
            hits.append(f"{os.path.relpath(p, LEAN)}:{line}: {m.group(0).strip()}")
    return hits


def audit(pid):
    """`#print axioms` for every theorem of Props/<pid>; returns (theorems, ok_list, problems)."""
    thms = props_theorems(pid)
    d = os.path.join(CACHE, "audit")
    os.makedirs(d, exist_ok=True)
    f = os.path.join(d, pid + ".lean")
    with open(f, "w") as fh:
        fh.write(f"import GeoVerif.Props.{pid}\n")
        for t in thms:
            fh.write(f"#print axioms {t}\n")
    r = sh(["lake", "env", "lean", f], cwd=LEAN, timeout=1200)
    out = r.stdout
    problems, okl = [], []
    # parse "'name' depends on axioms: [a, b]" / "'name' does not depend on any axioms"
    dep = {}
    for m in re.finditer(r"'([^']+)' depends on axioms: \[([^\]]*)\]", out, flags=re.S):
        dep[m.group(1)] = [a.strip() for a in m.group(2).replace("\n", " ").split(",") if a.strip()]
    for m in re.finditer(r"'([^']+)' does not depend on any axioms", out):
        dep[m.group(1)] = []
    for t in thms:
        if t not in dep:
            problems.append(f"{t}: no axiom report (does the theorem exist / compile?)")
            continue
        extra = [a for a in dep[t] if a not in ALLOWED_AXIOMS]
        if extra:
            problems.append(f"{t}: inadmissible axioms {extra}")
        else:
            okl.append((t, dep[t]))
    if r.returncode != 0 and not problems:
        problems.append("audit file failed to elaborate: " + out[-1500:])
    return thms, okl, problems


# --------------------------------------------------------------------------
# running a harness through the driver
# --------------------------------------------------------------------------

def run_harness(exe, args, lines_path, timeout=3600, env=None, stdin_path=None):
    e = dict(os.environ)
    e.setdefault("ASAN_OPTIONS", "detect_leaks=0:abort_on_error=0")
    e.setdefault("UBSAN_OPTIONS", "print_stacktrace=1")
    if env:
        e.update(env)
    with open(lines_path, "w") as fo:
        fi = open(stdin_path) if stdin_path else subprocess.DEVNULL
        p = subprocess.run([exe] + args, stdout=fo, stderr=subprocess.PIPE, text=True, timeout=timeout, env=e, stdin=fi)
    return p.returncode, p.stderr


def run_driver(lines_path, timeout=3600):
    with open(lines_path) as fi:
        p = subprocess.run([driver_path(), "corr"], stdin=fi, stdout=subprocess.PIPE, stderr=subprocess.STDOUT,
                           text=True, timeout=timeout)
    bads = [l for l in p.stdout.splitlines() if l.startswith("bad ")]
    summ = {}
    for l in p.stdout.splitlines():
        if l.startswith("summary "):
            for kv in l.split()[1:]:
                k, v = kv.split("=")
                summ[k] = int(v)
    return p.returncode, bads, summ, p.stdout


def parse_meta(lines_path):
    stats, strata, samples, bads = {}, {}, [], []
    nlines = 0
    oplines = []
    with open(lines_path, errors="replace") as f:
        for l in f:
            if l.startswith("#STAT "):
                _, k, v = l.split()
                stats[k] = stats.get(k, 0) + int(v)
            elif l.startswith("#STRATUM "):
                k = l[9:].strip()
                strata[k] = strata.get(k, 0) + 1
            elif l.startswith("#SAMPLE "):
                if len(samples) < 12:
                    samples.append(l[8:].strip())
            elif l.startswith("#BAD "):
                bads.append(l[5:].strip())
            elif not l.startswith("#") and l.strip():
                nlines += 1
                if len(oplines) < 6 and (nlines % 997 == 1):
                    oplines.append(l.strip()[:400])
    return stats, strata, samples, bads, nlines, oplines


def distinct_signatures(lines_path, sig):
    """count distinct non-trivial signatures over protocol lines; `sig(op, args, res)` returns a hashable or None"""
    seen = set()
    with open(lines_path, errors="replace") as f:
        for l in f:
            if l.startswith("#") or not l.strip():
                continue
            toks = l.split()
            if "|" in toks:
                i = toks.index("|")
                a, r = toks[1:i], toks[i + 1:]
            else:
                a, r = toks[1:], []
            s = sig(toks[0], a, r)
            if s is not None:
                seen.add(s)
    return len(seen)


# --------------------------------------------------------------------------
# known findings, evidence, verdict
# --------------------------------------------------------------------------

def known_findings(pid):
    p = os.path.join(VERIF, "known_findings.json")
    if not os.path.exists(p):
        return []
    data = json.load(open(p))
    return [k for k in data.get("findings", []) if k.get("property") == pid and k.get("status") == "open"]


def match_known(pid, text):
    for k in known_findings(pid):
        if re.search(k["match"], text):
            return k
    return None


def write_replay(pid, record):
    d = os.path.join(VERIF, "evidence", "replay")
    os.makedirs(d, exist_ok=True)
    h = sha(json.dumps(record, sort_keys=True))[:12]
    p = os.path.join(d, f"{pid}-{h}.json")
    json.dump(record, open(p, "w"), indent=1)
    return p


def write_evidence(pid, ev):
    d = os.path.join(VERIF, "evidence")
    os.makedirs(d, exist_ok=True)
    json.dump(ev, open(os.path.join(d, pid + ".json"), "w"), indent=1)


TRUSTED_BASE = [
    "Lean 4.33 kernel; axioms admitted: propext, Classical.choice, Quot.sound (no native_decide, no bv_decide, no user axioms, no sorry)",
    "decide +kernel obligations rely on the kernel's GMP-accelerated Nat/Int arithmetic",
    "tools/translate.py: regex extraction of tables/constants from the current /repo sources into Gen/*.lean (unverified; values are printed into this evidence)",
    "correspondence harness (C++17, in-process, ASan+UBSan build of the current working tree) and the line protocol; tolerances are the documented accuracies",
    "libm transcendental functions, the C++ compiler/memory model and OS are outside the model",
]

def source_digest():
    """sha256 over the library sources a check can depend on (src, public headers, tools), as they are in the working tree"""
    import hashlib
    h = hashlib.sha256()
    for pat in ("src/*.cpp", "src/*.hh", "include/GeographicLib/*.hpp", "tools/*.cpp"):
        for f in sorted(glob.glob(os.path.join(REPO, pat))):
            h.update(os.path.basename(f).encode()); h.update(fread(f))
    return h.hexdigest()


def source_changed():
    """True when the working tree differs from the tree the committed evidence was produced on (baseline_src.json)"""
    if os.environ.get("GV_FORCE_X4"):      # used to validate the enlarged budget on the unchanged tree
        return True
    try:
        base = json.load(open(os.path.join(VERIF, "baseline_src.json")))["digest"]
    except Exception:
        return False
    try:
        return source_digest() != base
    except Exception:
        return False
