#!/bin/bash
# accept.sh <Cxx> [seeds...] : acceptance run of one property's check on the clean tree (several seeds) and
# against every seeded change / reverted fix that names the property.  Prints one line per run.
p=$1; shift; seeds=${@:-1 2 3}
cd /verif
git -C /repo status --short | grep -v '^??' && { echo "/repo not clean"; exit 1; }
for s in $seeds; do
  VERIF_SEED=$s ./check $p quick > /tmp/accept_$p.$s.out 2>&1; rc=$?
  echo "clean seed=$s exit=$rc $(grep -c VIOLATION /tmp/accept_$p.$s.out) violations :: $(tail -1 /tmp/accept_$p.$s.out | cut -c1-200)"
done
for d in seeded/${p}*/; do
  id=$(basename $d)
  tools/run_seeded.sh $id $p quick | head -2
done
