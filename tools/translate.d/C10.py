"""C10 translator plug-in: the character tables of src/DMS.cpp -> Gen/DMSC.lean.

Extracted as *values* (byte lists): the ordered list of `replace(dmsa, "<pattern>", '<c>')` calls of DMS::Decode
(the unicode / alternative-symbol table) and the four lookup strings hemispheres_, signs_, digits_, dmsindicators_."""
import re


def _unescape(T, lit):
    """bytes of the body of a C string / character literal (escapes: \\xH.., octal, \\n \\t \\' \\" \\\\ \\0 ...)"""
    out, i = [], 0
    simple = {"n": 10, "t": 9, "r": 13, "v": 11, "f": 12, "a": 7, "b": 8, "\\": 92, "'": 39, '"': 34, "?": 63}
    while i < len(lit):
        ch = lit[i]
        if ch != "\\":
            b = ch.encode("utf-8")
            out += list(b); i += 1
            continue
        i += 1
        if i >= len(lit):
            raise T.Missing("dangling backslash in literal " + lit)
        e = lit[i]
        if e == "x":
            j = i + 1
            while j < len(lit) and lit[j] in "0123456789abcdefABCDEF":
                j += 1
            if j == i + 1:
                raise T.Missing("bad \\x escape in " + lit)
            v = int(lit[i + 1:j], 16)
            if v > 255:
                raise T.Missing("\\x escape out of range in " + lit)
            out.append(v); i = j
        elif e in "01234567":
            j = i
            while j < len(lit) and j < i + 3 and lit[j] in "01234567":
                j += 1
            out.append(int(lit[i:j], 8) & 255); i = j
        elif e in simple:
            out.append(simple[e]); i += 1
        else:
            raise T.Missing("unknown escape \\" + e + " in " + lit)
    return out


_STR = r'"((?:[^"\\]|\\.)*)"'
_CHR = r"'((?:[^'\\]|\\.)*)'"


def _cstr(T, txt, name):
    m = re.search(r"\bDMS::" + name + r"\s*=\s*((?:" + _STR + r"\s*)+);", txt)
    if not m:
        raise T.Missing("src/DMS.cpp: string DMS::" + name + " not found")
    parts = re.findall(_STR, m.group(1))
    out = []
    for p in parts:
        out += _unescape(T, p)
    return out


def gen_dms(T):
    txt = T.preprocess("src/DMS.cpp")
    calls = re.findall(r"\breplace\s*\(\s*dmsa\s*,\s*((?:" + _STR + r"\s*)+),\s*" + _CHR + r"\s*\)", txt)
    table = []
    for c in calls:
        pat = []
        for p in re.findall(_STR, c[0]):
            pat += _unescape(T, p)
        ch = _unescape(T, c[-1])
        if len(ch) != 1 or not pat:
            raise T.Missing("src/DMS.cpp: malformed replace(dmsa, ...) call")
        table.append((pat, ch[0]))
    if len(table) < 10:
        raise T.Missing("src/DMS.cpp: the replace(dmsa, pattern, char) table of DMS::Decode was not found")
    names = ["hemispheres_", "signs_", "digits_", "dmsindicators_"]
    strs = {n: _cstr(T, txt, n) for n in names}
    me = T.math_env()
    body = "namespace GeoVerif.Gen.DMSC\n"
    body += "/-- ordered `(pattern bytes, replacement byte)`; replacement 0 = delete -/\n"
    body += "def replaceTable : List (List Nat × Nat) := [\n" + ",\n".join(
        "  ([" + ", ".join(str(b) for b in pat) + "], " + str(c) + ")" for (pat, c) in table) + "]\n"
    for n in names:
        body += f"def {n.rstrip('_')} : List Nat := [" + ", ".join(str(b) for b in strs[n]) + "]\n"
    # the flag / component enums of DMS.hpp
    hpp = T.preprocess("include/GeographicLib/DMS.hpp")
    fl = dict(T.enum_body(hpp, "flag"))
    co = dict(T.enum_body(hpp, "component"))
    for k in ["NONE", "LATITUDE", "LONGITUDE", "AZIMUTH", "NUMBER"]:
        if k not in fl:
            raise T.Missing("DMS::flag::" + k + " not found")
        body += f"def flag{k} : Nat := {fl[k]}\n"
    for k in ["DEGREE", "MINUTE", "SECOND"]:
        if k not in co:
            raise T.Missing("DMS::component::" + k + " not found")
        body += f"def comp{k} : Nat := {co[k]}\n"
    body += "end GeoVerif.Gen.DMSC\n"
    T.write("DMSC", body)
    T.digest.append("DMS: replace table %d entries (%d deletions), hemispheres=%s signs=%s digits=%s indicators=%s" % (
        len(table), sum(1 for _, c in table if c == 0), bytes(strs["hemispheres_"]), bytes(strs["signs_"]),
        bytes(strs["digits_"]), bytes(strs["dmsindicators_"])))
