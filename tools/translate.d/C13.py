"""C13: constants of NearestNeighbor.hpp read by the model of Node::Check / Load (Gen/NNC.lean)."""
import re


def _ternary(e):
    """rewrite the innermost parenthesised C conditional `(c ? a : b)` as the Python `((a) if (c) else (b))`"""
    while "?" in e:
        q = e.index("?")
        # enclosing parentheses of the conditional
        depth, i = 0, q
        while i >= 0 and not (e[i] == "(" and depth == 0):
            depth += (e[i] == ")") - (e[i] == "(" and depth > 0)
            i -= 1
        depth, j = 0, q
        while j < len(e) and not (e[j] == ")" and depth == 0):
            depth += (e[j] == "(") - (e[j] == ")" and depth > 0)
            j += 1
        lo, hi = (i + 1, j) if i >= 0 and j < len(e) else (0, len(e))
        inner = e[lo:hi]
        c, rest = inner.split("?", 1)
        depth, k = 0, 0
        for k, ch in enumerate(rest):
            if ch == "(": depth += 1
            elif ch == ")": depth -= 1
            elif ch == ":" and depth == 0: break
        a, b = rest[:k], rest[k + 1:]
        e = e[:lo] + f"(({a}) if ({c}) else ({b}))" + e[hi:]
    return e


def gen_nnconst(T):
    rel = "include/GeographicLib/NearestNeighbor.hpp"
    txt = T.preprocess(rel)
    mv = re.search(r"static\s+const\s+int\s+version\s*=\s*([^;]+);", txt)
    mb = re.search(r"static\s+const\s+int\s+maxbucket\s*=\s*([^;]+);", txt)
    if not mv or not mb:
        raise T.Missing(rel + ": version / maxbucket not found")
    version = T.ceval(mv.group(1), {})
    # the harness instantiates dist_t = double: sizeof(dist_t) = 8, sizeof(int) = 4
    expr = re.sub(r"sizeof\s*\(\s*dist_t\s*\)", "8", mb.group(1))
    expr = re.sub(r"sizeof\s*\(\s*int\s*\)", "4", expr)
    py = " ".join(_ternary(expr).replace("/", "//").split())
    if not re.fullmatch(r"[0-9()+*/<>= \-]*(?:(?:if|else)[0-9()+*/<>= \-]*)*", py):
        raise T.Missing(rel + ": maxbucket is not an integer constant expression: " + py)
    maxbucket = eval(py, {"__builtins__": {}}, {})
    body = ("namespace GeoVerif.Gen.NNC\n"
            f"def version : Int := {T.lean_int(version)}\n"
            f"def maxbucket : Nat := {int(maxbucket)}\n"
            "end GeoVerif.Gen.NNC\n")
    T.write("NNC", body)
    T.digest.append(f"NearestNeighbor: version={version} maxbucket(dist_t=double)={maxbucket}")


# =====================================================================================================================
# gen_apic13: the inventory of the PUBLIC API (every public constructor, member function and static function of every
# class of include/GeographicLib/*.hpp, with one kind code per parameter), extracted from the clang-14 JSON AST of a
# translation unit that includes every public header -> Gen/ApiC13.lean.  The hand-written coverage list of
# Model/ErrCover.lean is checked against it by the obligations `api_covered`, `coverage_not_stale`,
# `ctor_all_have_domain`, `cover_arities` of Props/C13.lean: adding a public function / overload / parameter to the
# library without extending the contract breaks an obligation.
# =====================================================================================================================
import glob, hashlib, json, os, subprocess

_CLANG = "clang++-14"
_APIVER = "4"

_VAL = {"real": "r", "Math::real": "r", "double": "r", "float": "r", "long double": "r", "T": "t", "dist_t": "t",
        "IntT": "t", "ExtT": "t", "int": "i", "unsigned int": "u", "unsigned": "u", "bool": "b", "char": "c", "long long": "l", "size_t": "z", "std::size_t": "z",
        "unsigned long": "z", "std::string": "s", "std::vector<real>": "v", "std::vector<Math::real>": "v", "std::istream": "f", "std::ostream": "g",
        "AuxAngle": "a", "Point": "p", "Intersect::Point": "p", "std::pair<real, real>": "p", "std::pair<Math::real, Math::real>": "p"}


def _norm_type(t):
    t = t.replace("GeographicLib::", "")
    t = re.sub(r"\b(?:[A-Za-z_][A-Za-z_0-9]*::)+real\b", "real", t)        # Geodesic::real, SphericalEngine::real … -> real
    t = re.sub(r"\bMath::real\b", "real", t)
    return " ".join(t.split())


def _code(t):
    """one character per parameter: lower case = input, upper case = output (non-const reference / pointer)
    r real  t template value type  q real array  i int  u unsigned  b bool  c char  l long long  z size_t  s string  v vector<real>
    k C string  w other vector  f istream  g ostream  a AuxAngle  p Point (pair of reals)  h std::function  e enum  o library object  ? other"""
    t = _norm_type(t)
    const = bool(re.search(r"\bconst\b", t))
    core = re.sub(r"\bconst\b", "", t).strip()
    arr = bool(re.search(r"\[\d*\]$", core)) or core.endswith("*")
    ref = core.endswith("&")
    core = re.sub(r"(\[\d*\]|[&*\s])+$", "", core).strip()
    if core in _VAL:
        k = _VAL[core]
        if arr and k in ("r", "t"):
            k = "q"
        if arr and k == "c" and const:
            return "k"                       # const char*
        if k in ("f", "g"):
            return k                         # streams are always non-const references
        return k.upper() if ((ref or arr) and not const) else k
    if core.startswith("std::vector<"):
        return "W" if (ref and not const) else "w"
    if core.startswith("std::function<"):
        return "h"
    if re.fullmatch(r"(?:[A-Za-z_]\w*::)?(flag|component|convertflag|normalization|mask|captype|ordering)", core) :
        return "E" if (ref and not const) else "e"
    if re.fullmatch(r"[A-Za-z_][\w:<>, ]*", core):
        return "O" if ((ref or arr) and not const) else "o"
    return "?"


def _ret_code(ftype):
    r = _norm_type(ftype.split("(")[0].strip())
    if r in ("void", ""):
        return "-"
    c = _code(r)
    return c.lower() if c.isalpha() else c


def _api_inventory(T):
    repo = T.REPO
    hdrs = sorted(glob.glob(os.path.join(repo, "include", "GeographicLib", "*.hpp")))
    if not hdrs:
        raise T.Missing("no public headers under include/GeographicLib")
    h = hashlib.sha256(_APIVER.encode())
    for p in hdrs:
        h.update(os.path.basename(p).encode()); h.update(open(p, "rb").read())
    cachedir = os.path.join(T.VERIF, "_cache", "apic13")
    os.makedirs(cachedir, exist_ok=True)
    cp = os.path.join(cachedir, h.hexdigest()[:24] + ".json")
    if os.path.exists(cp):
        try:
            return json.load(open(cp))
        except Exception:
            pass
    T.preprocess("include/GeographicLib/Math.hpp")       # makes sure _cache/inc/GeographicLib/Config.h exists
    tu = os.path.join(cachedir, "all_%d.cpp" % os.getpid())
    open(tu, "w").write("".join('#include <GeographicLib/%s>\n' % os.path.basename(p) for p in hdrs))
    try:
        r = subprocess.run([_CLANG, "-std=gnu++17", "-fsyntax-only", "-w", "-I" + T.INC, "-I" + os.path.join(repo, "include"),
                            "-Xclang", "-ast-dump=json", "-Xclang", "-ast-dump-filter=GeographicLib", tu],
                           stdout=subprocess.PIPE, stderr=subprocess.PIPE, text=True)
    finally:
        os.remove(tu)
    if r.returncode != 0 or not r.stdout.strip():
        raise T.Missing("clang AST dump of the public headers failed: " + r.stderr[-400:])
    dec, i, n, roots = json.JSONDecoder(), 0, len(r.stdout), []
    while i < n:
        while i < n and r.stdout[i].isspace():
            i += 1
        if i >= n:
            break
        o, i = dec.raw_decode(r.stdout, i)
        roots.append(o)
    inv, seen = [], set()

    def emit(cls, c, templ):
        if c.get("explicitlyDeleted") or c.get("explicitlyDefaulted") or c.get("isImplicit"):
            return
        kind = c["kind"]
        name = c.get("name") or "?"
        ftype = c["type"]["qualType"]
        params = [p for p in c.get("inner", []) if p.get("kind") == "ParmVarDecl"]
        sig = "".join(_code(p["type"]["qualType"]) for p in params)
        ndef = sum(1 for p in params if "init" in p)
        if kind == "CXXConstructorDecl":
            k, name, ret = 0, cls.split("::")[-1], "-"
        else:
            k = 2 if c.get("storageClass") == "static" else 1
            ret = _ret_code(ftype)
        key = f"{cls.replace('::', '.')}.{name}/{sig}>{ret}"
        if key in seen:
            return                       # redeclaration
        seen.add(key)
        inv.append(dict(cls=cls.replace("::", "."), name=name, kind=k, sig=sig, ret=ret, templ=bool(templ), ndef=ndef,
                        pnames=[p.get("name", "") for p in params], const=bool(re.search(r"\)\s*const\b", ftype))))

    def record(n, q, templ):
        if not n.get("completeDefinition"):
            return
        access = "private" if n.get("tagUsed") == "class" else "public"
        for c in n.get("inner", []):
            k = c.get("kind")
            if k == "AccessSpecDecl":
                access = c.get("access", access)
                continue
            if access != "public":
                continue
            if k in ("CXXMethodDecl", "CXXConstructorDecl", "CXXConversionDecl"):
                emit(q, c, templ)
            elif k == "FunctionTemplateDecl":
                for d in c.get("inner", []):
                    if d.get("kind") in ("CXXMethodDecl", "CXXConstructorDecl"):
                        emit(q, d, True)
                        break
            elif k == "CXXRecordDecl" and c.get("name") and not c.get("isImplicit"):
                record(c, q + "::" + c["name"], templ)
            elif k == "ClassTemplateDecl":
                for d in c.get("inner", []):
                    if d.get("kind") == "CXXRecordDecl":
                        record(d, q + "::" + d["name"], True)
                        break

    def top(n):
        k = n.get("kind")
        if k == "NamespaceDecl":
            for c in n.get("inner", []):
                top(c)
        elif k == "CXXRecordDecl" and n.get("name"):
            record(n, n["name"], False)
        elif k == "ClassTemplateDecl":
            for d in n.get("inner", []):
                if d.get("kind") == "CXXRecordDecl":
                    record(d, d["name"], True)
                    break
    for rt in roots:
        top(rt)
    if len(inv) < 300:
        raise T.Missing(f"API inventory implausibly small ({len(inv)} functions)")
    inv.sort(key=lambda e: (e["cls"], e["name"], e["sig"], e["ret"]))
    tmp = cp + ".%d.tmp" % os.getpid()
    json.dump(inv, open(tmp, "w"))
    os.replace(tmp, cp)
    return inv


def gen_apic13(T):
    inv = _api_inventory(T)
    s = T.lean_str
    body = ("import GeoVerif.Model.ApiInventory\nnamespace GeoVerif.Gen.ApiC13\nopen GeoVerif.ApiInventory\n\n"
            "/-- every public constructor (kind 0), member function (1) and static member function (2) of every class declared in\n"
            "include/GeographicLib/*.hpp: key `Class.name/codes>ret` with its numeric code (UTF-8 bytes as a base-256 number), kind, one code per\n"
            "parameter (see Model/ApiInventory.lean), code of the return type, member of a class template / function template?; sorted by key -/\n"
            "def api : List Fn := [\n")
    def row(e):
        sig, ret = e["sig"], e["ret"]
        key = f"{e['cls']}.{e['name']}/{sig}>{ret}"
        chars = ", ".join("'" + c + "'" for c in sig)
        return (f"  ⟨⟨{s(key)}, {int.from_bytes(key.encode(), 'big')}⟩, {e['kind']}, [{chars}], '{ret}', {'true' if e['templ'] else 'false'}⟩")
    inv = sorted(inv, key=lambda e: f"{e['cls']}.{e['name']}/{e['sig']}>{e['ret']}")
    body += ",\n".join(row(e) for e in inv)
    body += "]\n\nend GeoVerif.Gen.ApiC13\n"
    T.write("ApiC13", body)
    ncls = len({e["cls"] for e in inv})
    nin = sum(1 for e in inv if re.search(r"[rtqskvwfhap]", e["sig"]))
    T.digest.append(f"public API inventory (clang AST of include/GeographicLib/*.hpp): {len(inv)} functions of {ncls} classes, {nin} with a floating-point / string / vector / stream input, "
                    f"{sum(1 for e in inv if e['kind'] == 0)} constructors")
