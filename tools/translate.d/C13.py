"""C13: constants of NearestNeighbor.hpp read by the model of Node::Check / Load (Gen/NNC.lean)."""
import re


def _ternary(e):
    """rewrite the innermost parenthesised C conditional `(c ? a : b)` as the Python `((a) if (c) else (b))`"""
    while "?" in e:
        q = e.index("?")
        # enclosing parentheses of the conditional
        depth, i = 0, q
        while i >= 0 and not (e[i] == "(" and depth == 0):
            depth += (e[i] == ")") - (e[i] == "(" and depth > 0)
            i -= 1
        depth, j = 0, q
        while j < len(e) and not (e[j] == ")" and depth == 0):
            depth += (e[j] == "(") - (e[j] == ")" and depth > 0)
            j += 1
        lo, hi = (i + 1, j) if i >= 0 and j < len(e) else (0, len(e))
        inner = e[lo:hi]
        c, rest = inner.split("?", 1)
        depth, k = 0, 0
        for k, ch in enumerate(rest):
            if ch == "(": depth += 1
            elif ch == ")": depth -= 1
            elif ch == ":" and depth == 0: break
        a, b = rest[:k], rest[k + 1:]
        e = e[:lo] + f"(({a}) if ({c}) else ({b}))" + e[hi:]
    return e


def gen_nnconst(T):
    rel = "include/GeographicLib/NearestNeighbor.hpp"
    txt = T.preprocess(rel)
    mv = re.search(r"static\s+const\s+int\s+version\s*=\s*([^;]+);", txt)
    mb = re.search(r"static\s+const\s+int\s+maxbucket\s*=\s*([^;]+);", txt)
    if not mv or not mb:
        raise T.Missing(rel + ": version / maxbucket not found")
    version = T.ceval(mv.group(1), {})
    # the harness instantiates dist_t = double: sizeof(dist_t) = 8, sizeof(int) = 4
    expr = re.sub(r"sizeof\s*\(\s*dist_t\s*\)", "8", mb.group(1))
    expr = re.sub(r"sizeof\s*\(\s*int\s*\)", "4", expr)
    py = " ".join(_ternary(expr).replace("/", "//").split())
    if not re.fullmatch(r"[0-9()+*/<>= \-]*(?:(?:if|else)[0-9()+*/<>= \-]*)*", py):
        raise T.Missing(rel + ": maxbucket is not an integer constant expression: " + py)
    maxbucket = eval(py, {"__builtins__": {}}, {})
    body = ("namespace GeoVerif.Gen.NNC\n"
            f"def version : Int := {T.lean_int(version)}\n"
            f"def maxbucket : Nat := {int(maxbucket)}\n"
            "end GeoVerif.Gen.NNC\n")
    T.write("NNC", body)
    T.digest.append(f"NearestNeighbor: version={version} maxbucket(dist_t=double)={maxbucket}")
