"""C09: the series-mode rhumb-area coefficient table (`Rhumb::AreaCoeffs`, active GEOGRAPHICLIB_RHUMBAREA_ORDER branch)."""
import re


def gen_rhumbarea(T):
    txt = T.preprocess("src/Rhumb.cpp")
    m = re.search(r"void\s+Rhumb::AreaCoeffs\s*\(", txt)
    if not m:
        raise T.Missing("Rhumb::AreaCoeffs not found")
    body = T.brace_array(txt[m.end():], r"\bcoeffs\s*\[\s*\]\s*=\s*\{")
    vals = [T.ceval(x, {}, rational=True) for x in T.split_top(body)]
    # Lmax from the triangular size
    L = [n for n in range(1, 20) if n * (n + 1) // 2 == len(vals)]
    if len(L) != 1:
        raise T.Missing(f"AreaCoeffs table has {len(vals)} entries: not triangular")
    out = "namespace GeoVerif.Gen.RhumbArea\n"
    out += f"def coeffs : List Rat := {T.lean_ratlist(vals)}\n"
    out += f"def Lmax : Nat := {L[0]}\n"
    out += "end GeoVerif.Gen.RhumbArea\n"
    T.write("RhumbArea", out)
    T.digest.append(f"RhumbArea: Lmax={L[0]} entries={len(vals)} first={vals[0]} last={vals[-1]}")
