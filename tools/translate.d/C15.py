"""Translator plug-in for C15: the series tables of AuxLatitude.cpp -> Gen/AuxSeries.lean.

Extracted (from the active preprocessor branch, as exact rationals):
  * `coeffs[]` and `ptrs[]` of AuxLatitude::fillcoeff, the series order Lmax (cross-checked against the table sizes),
  * the polynomial tables of RectifyingRadius(false) and AuthalicRadiusSquared(false),
  * the enum values of AuxLatitude::aux (so that a re-ordering of the enum is seen)."""
import re
from fractions import Fraction


def gen_auxseries(T):
    txt = T.preprocess("src/AuxLatitude.cpp")
    m = re.search(r"void\s+AuxLatitude::fillcoeff\s*\(", txt)
    if not m:
        raise T.Missing("AuxLatitude::fillcoeff not found")
    sub = txt[m.end():]
    body = T.brace_array(sub, r"\bcoeffs\s*\[\s*\]\s*=\s*\{")
    coeffs = [T.ceval(x, {}, rational=True) for x in T.split_top(body)]
    pb = T.brace_array(sub, r"\bptrs\s*\[\s*\]\s*=\s*\{")
    ptrs = [T.ceval(x, {}) for x in T.split_top(pb)]
    hdr = T.preprocess("include/GeographicLib/AuxLatitude.hpp")
    en = dict(T.enum_body(hdr, "aux"))
    names = ["GEOGRAPHIC", "PARAMETRIC", "GEOCENTRIC", "RECTIFYING", "CONFORMAL", "AUTHALIC", "AUXNUMBER"]
    for k in names:
        if k not in en:
            raise T.Missing("AuxLatitude::aux::" + k)
    A, R = en["AUXNUMBER"], en["RECTIFYING"]
    if len(ptrs) != A * A + 1:
        raise T.Missing(f"ptrs[] has {len(ptrs)} entries, expected {A*A+1}")
    # the order is the L for which the static_assert on the size of coeffs[] holds
    def size(L):
        return (R + 1) * R * ((L * (L + 3) - 2 * (L // 2)) // 4) + (A * (A - 1) - (R + 1) * R) * ((L * (L + 1)) // 2)
    order = [L for L in range(1, 40) if size(L) == len(coeffs)]
    if len(order) != 1:
        raise T.Missing(f"cannot determine GEOGRAPHICLIB_AUXLATITUDE_ORDER from the size of coeffs[] ({len(coeffs)})")
    order = order[0]
    mm = re.search(r"static\s+const\s+int\s+Lmax\s*=\s*([^;]+);", hdr)
    if mm:
        try:
            lm = T.ceval(mm.group(1), {})
            if lm != order:
                raise T.Missing(f"Lmax = {lm} in the header but coeffs[] has the size of order {order}")
        except (SyntaxError, TypeError):
            pass

    def radius(fname):
        mf = re.search(r"AuxLatitude::" + fname + r"\s*\(", txt)
        if not mf:
            raise T.Missing("AuxLatitude::" + fname)
        return T.func_array(txt, r"AuxLatitude::" + fname + r"\s*\(")
    rr = radius("RectifyingRadius")
    ar = radius("AuthalicRadiusSquared")
    body = "namespace GeoVerif.Gen.AuxSeries\n"
    body += f"def order : Nat := {order}\n"
    for k in names:
        body += f"def {k} : Nat := {en[k]}\n"
    body += f"def ptrs : List Nat := [{', '.join(str(p) for p in ptrs)}]\n"
    # one definition per (auxout, auxin) block keeps each literal small for the kernel
    body += f"def coeffs : List Rat := {T.lean_ratlist(coeffs)}\n"
    body += f"def rectRadius : List Rat := {T.lean_ratlist(rr)}\n"
    body += f"def authRadius : List Rat := {T.lean_ratlist(ar)}\n"
    body += "end GeoVerif.Gen.AuxSeries\n"
    T.write("AuxSeries", body)
    T.digest.append(f"AuxSeries: order={order} coeffs={len(coeffs)} ptrs[-1]={ptrs[-1]} rectRadius={[str(Fraction(x)) for x in rr]} "
                    f"authRadius={[str(Fraction(x)) for x in ar]} coeffs[0:6]={[str(Fraction(x)) for x in coeffs[:6]]}")


# ----------------------------------------------------------------------------------------------------------------------
# Carlson's algorithms in EllipticFunction.cpp -> Gen/Carlson.lean
#
# Extracted as *values* (a symbolic evaluation of the C++ expressions, so that an equivalent re-arrangement of a Horner form
# gives the same table):
#   * the numerator polynomials of the final series of RF (in E2, E3), RD and RJ (in E2..E5) as monomial tables, their
#     denominators, and the multiplier of the accumulated sum `s` (3 for RD, 6 for RJ);
#   * the weights of the mean A0 (RF: x y z; RJ: x y z p; RD: x y z), and the symmetric-function definitions E2..E5 of RD
#     and RJ as polynomials in the deviations;
#   * the eighth power of the tolerances tolRF / tolRD as a multiple of epsilon, tolRG0 / tolJAC squared, the trip caps and num_.
# ----------------------------------------------------------------------------------------------------------------------
import ast as _ast


class _P:
    """polynomial with Fraction coefficients in named symbols: {((sym, exp), ...): coeff}"""
    def __init__(self, d=None):
        self.d = {k: Fraction(v) for k, v in (d or {}).items() if v != 0}

    @staticmethod
    def const(c):
        return _P({(): Fraction(c)})

    @staticmethod
    def sym(s):
        return _P({((s, 1),): 1})

    def __add__(self, o):
        r = dict(self.d)
        for k, v in o.d.items():
            r[k] = r.get(k, 0) + v
        return _P(r)

    def __neg__(self):
        return _P({k: -v for k, v in self.d.items()})

    def __sub__(self, o):
        return self + (-o)

    def __mul__(self, o):
        r = {}
        for k1, v1 in self.d.items():
            for k2, v2 in o.d.items():
                e = dict(k1)
                for s, n in k2:
                    e[s] = e.get(s, 0) + n
                k = tuple(sorted(e.items()))
                r[k] = r.get(k, 0) + v1 * v2
        return _P(r)

    def isconst(self):
        return all(k == () for k in self.d)

    def cval(self):
        return self.d.get((), Fraction(0))

    def coeff(self, exps):
        """coefficient of the monomial given as {sym: exp}"""
        return self.d.get(tuple(sorted((s, n) for s, n in exps.items() if n)), Fraction(0))


def _clean(e):
    e = " ".join(e.split())
    e = e.replace("numeric_limits<real>::epsilon()", "EPSILON")
    e = re.sub(r"\b(?:real|T|double)\s*\(", "(", e)
    e = re.sub(r"\bMath::sq\s*\(", "SQ(", e)
    e = re.sub(r"\b[A-Za-z_]\w*::", "", e)
    return e


def _sym_eval(T, expr, env=None, funcs=None):
    """evaluate a C++ arithmetic expression to a _P; identifiers are symbols unless in env; f(args) -> funcs[f]"""
    env = env or {}
    funcs = funcs or {}
    try:
        tree = _ast.parse(_clean(expr), mode="eval")
    except SyntaxError:
        raise T.Missing(f"cannot parse expression '{expr[:80]}'")

    def ev(n):
        if isinstance(n, _ast.Expression):
            return ev(n.body)
        if isinstance(n, _ast.Constant) and isinstance(n.value, (int, float)):
            return _P.const(Fraction(str(n.value)))
        if isinstance(n, _ast.Name):
            return env[n.id] if n.id in env else _P.sym(n.id)
        if isinstance(n, _ast.UnaryOp) and isinstance(n.op, _ast.USub):
            return -ev(n.operand)
        if isinstance(n, _ast.UnaryOp) and isinstance(n.op, _ast.UAdd):
            return ev(n.operand)
        if isinstance(n, _ast.BinOp):
            a, b = ev(n.left), ev(n.right)
            if isinstance(n.op, _ast.Add): return a + b
            if isinstance(n.op, _ast.Sub): return a - b
            if isinstance(n.op, _ast.Mult): return a * b
            if isinstance(n.op, _ast.Div):
                if b.isconst() and b.cval() != 0:
                    return a * _P.const(1 / b.cval())
                # division by a monomial: negative exponents
                if len(b.d) == 1:
                    (k, v), = b.d.items()
                    return a * _P({tuple((s, -m) for s, m in k): 1 / v})
        if isinstance(n, _ast.Call) and isinstance(n.func, _ast.Name):
            args = [ev(x) for x in n.args]
            if n.func.id == "SQ" and len(args) == 1:
                return args[0] * args[0]
            if n.func.id in funcs:
                return funcs[n.func.id](*args)
            if len(args) == 1 and len(args[0].d) == 1 and list(args[0].d.values())[0] == 1 and len(list(args[0].d)[0]) == 1:
                # f(symbol) becomes the symbol f_symbol
                return _P.sym(n.func.id + "_" + list(args[0].d)[0][0][0])
        raise T.Missing(f"unsupported expression '{expr[:80]}'")
    return ev(tree)


def _func_body(T, txt, name, nparams):
    """body of EllipticFunction::name with `nparams` parameters"""
    for m in re.finditer(r"EllipticFunction::" + name + r"\s*\(([^)]*)\)\s*(?:const\s*)?\{", txt):
        if len([p for p in m.group(1).split(",") if p.strip()]) == nparams:
            i = m.end() - 1
            depth, j = 0, i
            while j < len(txt):
                if txt[j] == "{": depth += 1
                elif txt[j] == "}":
                    depth -= 1
                    if depth == 0:
                        return txt[i + 1:j]
                j += 1
    raise T.Missing(f"EllipticFunction::{name} with {nparams} parameters not found")


def _decls(body):
    """`name = expr` pieces of the declarations / assignments of a function body (top level of the statements)"""
    out = {}
    # strip loop bodies: keep statements at brace depth 0
    flat, depth = "", 0
    for ch in body:
        if ch == "{":
            if depth == 0:      # drop the header of the compound statement (for (...), if (...), ...)
                flat = flat[:flat.rfind(";") + 1]
            depth += 1
        elif ch == "}": depth -= 1
        elif depth == 0: flat += ch
    for stmt in flat.split(";"):
        stmt = re.sub(r"^\s*(?:static\s+)?(?:const\s+)?real\b", "", stmt.strip())
        for piece in _split_top(stmt):
            mm = re.match(r"^\s*([A-Za-z_]\w*)\s*=\s*(.+)$", piece, flags=re.S)
            if mm and mm.group(1) not in out:
                out[mm.group(1)] = mm.group(2)
    return out


def _split_top(s):
    out, depth, cur = [], 0, ""
    for ch in s:
        if ch in "([{": depth += 1
        if ch in ")]}": depth -= 1
        if ch == "," and depth == 0:
            out.append(cur); cur = ""
        else:
            cur += ch
    out.append(cur)
    return out


def _lean_rat1(fr):
    fr = Fraction(fr)
    return f"({fr.numerator} : Rat)" if fr.denominator == 1 else f"(({fr.numerator} : Rat) / {fr.denominator})"


def gen_carlson(T):
    txt = T.preprocess("src/EllipticFunction.cpp")
    hdr = T.preprocess("include/GeographicLib/EllipticFunction.hpp")
    out = "namespace GeoVerif.Gen.Carlson\n"
    dig = []

    def series(name, nparams, esyms, dev):
        """final series of RF / RD / RJ: numerator table, denominator, multiplier of s, mean weights, E-definitions"""
        nonlocal out
        body = _func_body(T, txt, name, nparams)
        rets = re.findall(r"\breturn\b([^;]+);", body)
        if not rets:
            raise T.Missing(f"{name}: no return statement")
        ret = rets[-1]
        # numerator: everything before the top-level '/'; the rest is the denominator (and `+ k * s`)
        depth, cut = 0, None
        for i, ch in enumerate(ret):
            if ch in "([": depth += 1
            elif ch in ")]": depth -= 1
            elif ch == "/" and depth == 0:
                cut = i; break
        if cut is None:
            raise T.Missing(f"{name}: the return expression is not a quotient")
        num = _sym_eval(T, ret[:cut])
        rest = ret[cut + 1:]
        # denominator = first parenthesised group of the rest
        j0 = rest.index("("); depth = 0
        for j in range(j0, len(rest)):
            if rest[j] == "(": depth += 1
            elif rest[j] == ")":
                depth -= 1
                if depth == 0:
                    break
        den = _sym_eval(T, rest[j0:j + 1])
        tail = rest[j + 1:].strip()
        if len(den.d) != 1:
            raise T.Missing(f"{name}: denominator is not a monomial")
        (dk, dv), = den.d.items()
        want = {"sqrt_An": 1} if name == "RF" else {"sqrt_An": 1, "An": 1, "mul": 1}
        if dict(dk) != want or dv.denominator != 1:
            raise T.Missing(f"{name}: denominator {dict(dk)} x {dv} is not the expected scaling {want}")
        smul = 0
        if tail:
            tl = _sym_eval(T, "0" + tail)
            smul = tl.coeff({"s": 1})
            if tl.d.keys() - {(("s", 1),)} or smul.denominator != 1:
                raise T.Missing(f"{name}: unexpected trailing term '{tail}'")
        mons = []
        for k, v in sorted(num.d.items()):
            e = dict(k)
            if set(e) - set(esyms) or v.denominator != 1:
                raise T.Missing(f"{name}: numerator is not an integer polynomial in {esyms}")
            mons.append(([e.get(s, 0) for s in esyms], int(v)))
        mons.sort()
        out += f"/-- numerator of the final series of `{name}`: (exponents of {', '.join(esyms)}; coefficient) -/\n"
        out += f"def {name.lower()}Poly : List (List Nat × Int) := [" + ", ".join(f"([{', '.join(map(str, e))}], {T.lean_int(c)})" for e, c in mons) + "]\n"
        out += f"def {name.lower()}Den : Int := {int(dv)}\n"
        out += f"def {name.lower()}SumMul : Int := {int(smul)}\n"
        d = _decls(body)
        if "A0" not in d:
            raise T.Missing(f"{name}: A0 not found")
        a0 = _sym_eval(T, d["A0"])
        args = ["x", "y", "z", "p"][:nparams]
        w = [a0.coeff({s: 1}) for s in args]
        if sum(abs(v) for v in a0.d.values()) != sum(abs(x) for x in w):
            raise T.Missing(f"{name}: A0 is not a linear combination of the arguments")
        out += f"/-- weights of the mean `A0` in {', '.join(args)} -/\ndef {name.lower()}Mean : List Rat := {T.lean_ratlist(w)}\n"
        # E2.. as polynomials in the independent deviations (dev), after substituting the dependent one
        env = {}
        for nm in ["Z", "P"]:
            if nm in d and nm not in dev:
                env[nm] = _sym_eval(T, d[nm], env)
        edefs = []
        for s in esyms:
            if s not in d:
                raise T.Missing(f"{name}: {s} not found")
            p = _sym_eval(T, d[s], env)
            env[s] = p
            rows = []
            for k, v in sorted(p.d.items()):
                e = dict(k)
                if set(e) - set(dev):
                    raise T.Missing(f"{name}: {s} is not a polynomial in {dev}")
                rows.append(([e.get(t, 0) for t in dev], v))
            rows.sort()
            edefs.append(rows)
        out += f"/-- `{', '.join(esyms)}` of `{name}` as polynomials in {', '.join(dev)} (exponents; coefficient) -/\n"
        out += f"def {name.lower()}Edefs : List (List (List Nat × Rat)) := [" + ", ".join(
            "[" + ", ".join(f"([{', '.join(map(str, e))}], {_lean_rat1(c)})" for e, c in rows) + "]" for rows in edefs) + "]\n"
        # the dependent deviation(s)
        deps = []
        for nm in ["Z", "P"]:
            if nm in env and nm not in esyms:
                p = env[nm]
                deps.append([p.coeff({t: 1}) for t in dev])
        out += f"/-- the dependent deviation (`Z` resp. `P`) as a linear form in {', '.join(dev)} -/\n"
        out += f"def {name.lower()}Dep : List (List Rat) := [" + ", ".join(T.lean_ratlist(r) for r in deps) + "]\n"
        mt = re.search(r"trip\s*<\s*(\d+)", body)
        if not mt:
            raise T.Missing(f"{name}: trip cap not found")
        out += f"def {name.lower()}Trips : Nat := {int(mt.group(1))}\n"
        dig.append(f"{name}: {len(mons)} monomials den={int(dv)} smul={int(smul)} mean={[str(x) for x in w]} trips={mt.group(1)}")
        return body, d

    def tol_pow8(body, nm):
        m = re.search(nm + r"\s*=\s*pow\s*\((.+?),\s*1\s*/\s*real\s*\(\s*(\d+)\s*\)\s*\)\s*;", body, flags=re.S)
        if not m:
            raise T.Missing(f"{nm} = pow(..., 1/real(n)) not found")
        p = _sym_eval(T, m.group(1))
        c = p.coeff({"EPSILON": 1})
        if set(p.d) != {(("EPSILON", 1),)}:
            raise T.Missing(f"{nm}: argument of pow is not a multiple of epsilon")
        return c, int(m.group(2))

    def tol_sqrt(body, nm):
        m = re.search(nm + r"\s*=\s*(.*?)sqrt\s*\((.+?)\)\s*;", body, flags=re.S)
        if not m:
            raise T.Missing(f"{nm} = [c *] sqrt(...) not found")
        pre = m.group(1).strip().rstrip("*").strip()
        c = _sym_eval(T, pre).cval() if pre else Fraction(1)
        p = _sym_eval(T, m.group(2))
        if set(p.d) != {(("EPSILON", 1),)}:
            raise T.Missing(f"{nm}: argument of sqrt is not a multiple of epsilon")
        return c, p.coeff({"EPSILON": 1})

    brf, _ = series("RF", 3, ["E2", "E3"], ["X", "Y"])
    brd, _ = series("RD", 3, ["E2", "E3", "E4", "E5"], ["X", "Y"])
    brj, _ = series("RJ", 4, ["E2", "E3", "E4", "E5"], ["X", "Y", "Z"])
    c, n = tol_pow8(brf, "tolRF")
    out += f"/-- `tolRF ^ {n} = c · epsilon` -/\ndef tolRFpow : Nat := {n}\ndef tolRFcoef : Rat := {_lean_rat1(c)}\n"
    dig.append(f"tolRF^{n}={c}eps")
    for nm, b in (("RD", brd), ("RJ", brj)):
        c, n = tol_pow8(b, "tolRD")
        out += f"def tol{nm}pow : Nat := {n}\ndef tol{nm}coef : Rat := {_lean_rat1(c)}\n"
        dig.append(f"tolRD({nm})^{n}={c}eps")
    for nm, fn, k in (("RF2", "RF", 2), ("RG2", "RG", 2)):
        b = _func_body(T, txt, fn, k)
        c, e = tol_sqrt(b, "tolRG0")
        mt = re.search(r"trip\s*<\s*(\d+)", b)
        if not mt:
            raise T.Missing(f"{fn}(x, y): trip cap not found")
        out += f"/-- `tolRG0 = c · sqrt(e · epsilon)` in the two-argument `{fn}` -/\ndef tol{nm}fac : Rat := {_lean_rat1(c)}\ndef tol{nm}eps : Rat := {_lean_rat1(e)}\ndef {nm.lower()}Trips : Nat := {int(mt.group(1))}\n"
        dig.append(f"tolRG0({nm})={c}*sqrt({e}eps)")
    for fn, k, nm in (("sncndn", 4, "Sncndn"), ("Einv", 1, "Einv")):
        b = _func_body(T, txt, fn, k)
        c, e = tol_sqrt(b, "tolJAC")
        out += f"def tolJAC{nm}fac : Rat := {_lean_rat1(c)}\ndef tolJAC{nm}eps : Rat := {_lean_rat1(e)}\n"
    b = _func_body(T, txt, "am", 1)
    m = re.search(r"tolJAC\s*=\s*pow\s*\(\s*numeric_limits<real>::epsilon\(\)\s*,\s*real\s*\(\s*([0-9.]+)\s*\)\s*\)", b)
    if not m:
        raise T.Missing("am: tolJAC = pow(epsilon, real(c)) not found")
    out += f"/-- `tolJAC = epsilon ^ c` in `am` -/\ndef tolJACamExp : Rat := {_lean_rat1(Fraction(m.group(1)))}\n"
    m = re.search(r"enum\s*\{\s*num_\s*=\s*(\d+)\s*\}", hdr)
    if not m:
        raise T.Missing("EllipticFunction::num_ not found")
    out += f"def num : Nat := {int(m.group(1))}\n"
    out += "end GeoVerif.Gen.Carlson\n"
    T.write("Carlson", out)
    T.digest.append("Carlson: " + "; ".join(dig) + f"; num_={m.group(1)}")
