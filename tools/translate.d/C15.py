"""Translator plug-in for C15: the series tables of AuxLatitude.cpp -> Gen/AuxSeries.lean.

Extracted (from the active preprocessor branch, as exact rationals):
  * `coeffs[]` and `ptrs[]` of AuxLatitude::fillcoeff, the series order Lmax (cross-checked against the table sizes),
  * the polynomial tables of RectifyingRadius(false) and AuthalicRadiusSquared(false),
  * the enum values of AuxLatitude::aux (so that a re-ordering of the enum is seen)."""
import re
from fractions import Fraction


def gen_auxseries(T):
    txt = T.preprocess("src/AuxLatitude.cpp")
    m = re.search(r"void\s+AuxLatitude::fillcoeff\s*\(", txt)
    if not m:
        raise T.Missing("AuxLatitude::fillcoeff not found")
    sub = txt[m.end():]
    body = T.brace_array(sub, r"\bcoeffs\s*\[\s*\]\s*=\s*\{")
    coeffs = [T.ceval(x, {}, rational=True) for x in T.split_top(body)]
    pb = T.brace_array(sub, r"\bptrs\s*\[\s*\]\s*=\s*\{")
    ptrs = [T.ceval(x, {}) for x in T.split_top(pb)]
    hdr = T.preprocess("include/GeographicLib/AuxLatitude.hpp")
    en = dict(T.enum_body(hdr, "aux"))
    names = ["GEOGRAPHIC", "PARAMETRIC", "GEOCENTRIC", "RECTIFYING", "CONFORMAL", "AUTHALIC", "AUXNUMBER"]
    for k in names:
        if k not in en:
            raise T.Missing("AuxLatitude::aux::" + k)
    A, R = en["AUXNUMBER"], en["RECTIFYING"]
    if len(ptrs) != A * A + 1:
        raise T.Missing(f"ptrs[] has {len(ptrs)} entries, expected {A*A+1}")
    # the order is the L for which the static_assert on the size of coeffs[] holds
    def size(L):
        return (R + 1) * R * ((L * (L + 3) - 2 * (L // 2)) // 4) + (A * (A - 1) - (R + 1) * R) * ((L * (L + 1)) // 2)
    order = [L for L in range(1, 40) if size(L) == len(coeffs)]
    if len(order) != 1:
        raise T.Missing(f"cannot determine GEOGRAPHICLIB_AUXLATITUDE_ORDER from the size of coeffs[] ({len(coeffs)})")
    order = order[0]
    mm = re.search(r"static\s+const\s+int\s+Lmax\s*=\s*([^;]+);", hdr)
    if mm:
        try:
            lm = T.ceval(mm.group(1), {})
            if lm != order:
                raise T.Missing(f"Lmax = {lm} in the header but coeffs[] has the size of order {order}")
        except (SyntaxError, TypeError):
            pass

    def radius(fname):
        mf = re.search(r"AuxLatitude::" + fname + r"\s*\(", txt)
        if not mf:
            raise T.Missing("AuxLatitude::" + fname)
        return T.func_array(txt, r"AuxLatitude::" + fname + r"\s*\(")
    rr = radius("RectifyingRadius")
    ar = radius("AuthalicRadiusSquared")
    body = "namespace GeoVerif.Gen.AuxSeries\n"
    body += f"def order : Nat := {order}\n"
    for k in names:
        body += f"def {k} : Nat := {en[k]}\n"
    body += f"def ptrs : List Nat := [{', '.join(str(p) for p in ptrs)}]\n"
    # one definition per (auxout, auxin) block keeps each literal small for the kernel
    body += f"def coeffs : List Rat := {T.lean_ratlist(coeffs)}\n"
    body += f"def rectRadius : List Rat := {T.lean_ratlist(rr)}\n"
    body += f"def authRadius : List Rat := {T.lean_ratlist(ar)}\n"
    body += "end GeoVerif.Gen.AuxSeries\n"
    T.write("AuxSeries", body)
    T.digest.append(f"AuxSeries: order={order} coeffs={len(coeffs)} ptrs[-1]={ptrs[-1]} rectRadius={[str(Fraction(x)) for x in rr]} "
                    f"authRadius={[str(Fraction(x)) for x in ar]} coeffs[0:6]={[str(Fraction(x)) for x in coeffs[:6]]}")
