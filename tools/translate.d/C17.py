"""Translator plug-in for C17: the bookkeeping constants of `Intersect` (src/Intersect.cpp, include/GeographicLib/Intersect.hpp).

Extracted as *values* (integers / rationals), never as text:
  * `numit_` (iteration cap of Basic);
  * the start-point offset tables `ix[]`, `iy[]` of ClosestInt (5 starts) and NextInt (8 starts);
  * the *defining expressions* of the tile spacings `_d1 = _t2/2`, `_d2 = 2*_t3/3`, `_d3 = _t4 - _delta` as the coefficient
    vectors of the linear forms they are (the expression is evaluated on the unit vectors of its free identifiers and
    checked to be linear at a further point), likewise the pruning thresholds `2*_t1 - _d1 - _delta` (Closest),
    `2*_t1 - _d2 - _delta` (Next), `2*_t1 - d3 - _delta` (All), the early-exit radius `_t1` of ClosestInt, the corner
    exclusion radius `2*_t1` of SegmentInt, `maxdistx = maxdist + _delta`;
  * the factor of `_eps` and the exponents of `numeric_limits::epsilon()` in `_tol` and `_delta`;
  * the three inequalities of the constructor's sanity check, each as a pair of coefficient vectors (lhs < rhs).
So `2*_t1 - _delta - _d1` or `_t2 * 0.5` are harmless, `_t2 / 3` or `3*_t1 - …` are not."""
import re
from fractions import Fraction


def _body(T, txt, anchor_re):
    m = re.search(anchor_re, txt)
    if not m:
        raise T.Missing(f"anchor /{anchor_re}/ not found")
    i = txt.index("{", m.end())
    depth, j = 0, i
    while j < len(txt):
        if txt[j] == "{":
            depth += 1
        elif txt[j] == "}":
            depth -= 1
            if depth == 0:
                return txt[i + 1:j]
        j += 1
    raise T.Missing("unbalanced braces after " + anchor_re)


def _ints(T, body, name):
    arr = T.brace_array(body, r"\b" + name + r"\s*\[\s*\w*\s*\]\s*=\s*\{")
    return [int(T.ceval(x, {})) for x in T.split_top(arr)]


def _linear(T, expr, names):
    """coefficients of the linear form `expr` in `names` (all other identifiers are errors)"""
    e = re.sub(r"\breal\s*\(", "(", expr)
    def ev(vals):
        return Fraction(T.ceval(e, dict(zip(names, vals)), rational=True))
    zero = [Fraction(0)] * len(names)
    if ev(zero) != 0:
        raise T.Missing(f"'{expr}' is not a homogeneous linear form in {names}")
    co = []
    for i in range(len(names)):
        v = list(zero); v[i] = Fraction(1)
        co.append(ev(v))
    probe = [Fraction(3 + 2 * i, 7) for i in range(len(names))]
    if ev(probe) != sum(c * p for c, p in zip(co, probe)):
        raise T.Missing(f"'{expr}' is not linear in {names}")
    return co


def _rl(T, co):
    return T.lean_ratlist(co)


def gen_intersect(T):
    cpp = T.preprocess("src/Intersect.cpp")
    hpp = T.preprocess("include/GeographicLib/Intersect.hpp")
    m = re.search(r"static\s+const\s+int\s+numit_\s*=\s*([^;]+);", hpp)
    if not m:
        raise T.Missing("Intersect::numit_ not found")
    numit = int(T.ceval(m.group(1), {}))
    clo = _body(T, cpp, r"Intersect::ClosestInt\s*\(")
    nxt = _body(T, cpp, r"Intersect::NextInt\s*\(")
    seg = _body(T, cpp, r"Intersect::SegmentInt\s*\(")
    al0 = _body(T, cpp, r"Intersect::AllInt0\s*\(")
    cix, ciy, nix, niy = _ints(T, clo, "ix"), _ints(T, clo, "iy"), _ints(T, nxt, "ix"), _ints(T, nxt, "iy")
    if len(cix) != len(ciy) or len(nix) != len(niy) or not cix or not nix:
        raise T.Missing("ix/iy tables of ClosestInt/NextInt have inconsistent sizes")

    def skipthr(body, names, what):
        mm = re.search(r"skip\s*\[\s*\w+\s*\]\s*=\s*skip\s*\[\s*\w+\s*\]\s*\|\|[^;]*?<\s*([^;<]+);", body, flags=re.S)
        if not mm:
            raise T.Missing(f"pruning test of {what} not found")
        return _linear(T, mm.group(1), names)
    cskip = skipthr(clo, ["_t1", "_d1", "_delta"], "ClosestInt")
    nskip = skipthr(nxt, ["_t1", "_d2", "_delta"], "NextInt")
    askip = skipthr(al0, ["_t1", "d3", "_delta"], "AllInt0")
    mm = re.search(r"qx\s*\.\s*Dist\s*\(\s*p0\s*\)\s*<\s*([^)]+)\)\s*\{[^}]*break", clo)
    if not mm:
        raise T.Missing("early exit of ClosestInt not found")
    cstop = _linear(T, mm.group(1), ["_t1"])
    mm = re.search(r"q\s*\.\s*Dist\s*\(\s*t\s*\)\s*>=\s*([^)]+)\)", seg)
    if not mm:
        raise T.Missing("corner exclusion test of SegmentInt not found")
    scorner = _linear(T, mm.group(1), ["_t1"])
    mm = re.search(r"\bmaxdistx\s*=\s*([^;]+);", al0)
    if not mm:
        raise T.Missing("maxdistx of AllInt0 not found")
    amax = _linear(T, mm.group(1), ["maxdist", "_delta"])
    # constructor
    ctor = _body(T, cpp, r"Intersect::Intersect\s*\([^)]*\)\s*:[^{]*")
    def assign(name, names):
        ms = re.findall(r"(?<![\w.])" + name + r"\s*=\s*([^;=]+);", ctor)
        if not ms:
            raise T.Missing(f"definition of {name} not found in the constructor")
        return _linear(T, ms[-1], names)
    d1def = assign("_d1", ["_t2"]); d2def = assign("_d2", ["_t3"]); d3def = assign("_d3", ["_t4", "_delta"])
    mm = re.search(r"if\s*\(\s*!\s*\((.*?)\)\s*\)\s*throw", ctor, flags=re.S)
    if not mm:
        raise T.Missing("sanity check of the constructor not found")
    conj = [c.strip() for c in mm.group(1).split("&&")]
    cnames = ["_t1", "_d1", "_d2", "_d3"]
    checks = []
    for c in conj:
        if c.count("<") != 1:
            raise T.Missing(f"constructor check '{c}' is not of the form lhs < rhs")
        l, r = c.split("<")
        checks.append((_linear(T, l, cnames), _linear(T, r, cnames)))
    head = cpp[:cpp.index("{", re.search(r"Intersect::Intersect\s*\(", cpp).end())]
    me = re.search(r"_eps\s*\(\s*([^,()]+?)\s*\*\s*numeric_limits", head)
    mt = re.search(r"_tol\s*\(\s*_d\s*\*\s*pow\s*\(\s*numeric_limits<real>::epsilon\(\)\s*,\s*([^)]*\)?)\s*\)\s*\)", head)
    md = re.search(r"_delta\s*\(\s*_d\s*\*\s*pow\s*\(\s*numeric_limits<real>::epsilon\(\)\s*,\s*([^)]*\)?)\s*\)\s*\)", head)
    if not (me and mt and md):
        raise T.Missing("_eps / _tol / _delta initialisers not found")
    epsmul = Fraction(T.ceval(me.group(1), {}, rational=True))
    tolexp = Fraction(T.ceval(re.sub(r"\breal\s*\(", "(", mt.group(1)), {}, rational=True))
    delexp = Fraction(T.ceval(re.sub(r"\breal\s*\(", "(", md.group(1)), {}, rational=True))
    L = lambda xs: "[" + ", ".join(T.lean_int(x) for x in xs) + "]"
    out = "namespace GeoVerif.Gen.IntersectC\n"
    out += f"def numit : Nat := {numit}\n"
    out += f"def closestIx : List Int := {L(cix)}\ndef closestIy : List Int := {L(ciy)}\n"
    out += f"def nextIx : List Int := {L(nix)}\ndef nextIy : List Int := {L(niy)}\n"
    out += f"/-- pruning threshold of ClosestInt as a linear form in (_t1, _d1, _delta) -/\ndef closestSkip : List Rat := {_rl(T, cskip)}\n"
    out += f"/-- early-exit radius of ClosestInt in (_t1) -/\ndef closestStop : List Rat := {_rl(T, cstop)}\n"
    out += f"/-- pruning threshold of NextInt in (_t1, _d2, _delta) -/\ndef nextSkip : List Rat := {_rl(T, nskip)}\n"
    out += f"/-- pruning threshold of AllInt0 in (_t1, d3, _delta) -/\ndef allSkip : List Rat := {_rl(T, askip)}\n"
    out += f"/-- maxdistx of AllInt0 in (maxdist, _delta) -/\ndef allMaxdistx : List Rat := {_rl(T, amax)}\n"
    out += f"/-- corner exclusion radius of SegmentInt in (_t1) -/\ndef segCorner : List Rat := {_rl(T, scorner)}\n"
    out += f"def d1def : List Rat := {_rl(T, d1def)}\ndef d2def : List Rat := {_rl(T, d2def)}\ndef d3def : List Rat := {_rl(T, d3def)}\n"
    out += "/-- the constructor's sanity check: conjunction of lhs < rhs, each side a linear form in (_t1, _d1, _d2, _d3) -/\n"
    out += "def ctorChecks : List (List Rat × List Rat) := [" + ", ".join(f"({_rl(T, l)}, {_rl(T, r)})" for l, r in checks) + "]\n"
    out += f"def epsMul : Rat := {_rl(T, [epsmul])[1:-1]}\ndef tolExp : Rat := {_rl(T, [tolexp])[1:-1]}\ndef deltaExp : Rat := {_rl(T, [delexp])[1:-1]}\n"
    out += "end GeoVerif.Gen.IntersectC\n"
    T.write("IntersectC", out)
    T.digest.append(f"IntersectC: numit={numit} closest ix={cix} iy={ciy} next ix={nix} iy={niy} skip={[str(c) for c in cskip]}/{[str(c) for c in nskip]}/{[str(c) for c in askip]} "
                    f"d1={[str(c) for c in d1def]} d2={[str(c) for c in d2def]} d3={[str(c) for c in d3def]} ctor={[(list(map(str, l)), list(map(str, r))) for l, r in checks]} "
                    f"eps={epsmul} tol^{tolexp} delta^{delexp}")
