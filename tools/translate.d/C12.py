"""C12: (i) the table of inline overloads of Direct / ArcDirect / Inverse / Position / ArcPosition (and the private
pass-through wrappers of Rhumb) in Geodesic.hpp, GeodesicExact.hpp, GeodesicLine.hpp, GeodesicLineExact.hpp, Rhumb.hpp:
for every overload its reference parameters, the mask expression it passes to the general function and the argument list
of that call; the mask enums of the three line classes  ->  Gen/Overloads.lean
(ii) the mask expressions with which GenInverse (series and exact) calls Lengths  ->  Gen/LengthMask.lean"""
import re

_NAMES = ("Direct", "ArcDirect", "Inverse", "Position", "ArcPosition", "GenDirect", "GenInverse", "GenPosition")
_CLASSES = [("Geodesic", "include/GeographicLib/Geodesic.hpp", "geod"), ("GeodesicExact", "include/GeographicLib/GeodesicExact.hpp", "geodx"),
            ("GeodesicLine", "include/GeographicLib/GeodesicLine.hpp", "gline"), ("GeodesicLineExact", "include/GeographicLib/GeodesicLineExact.hpp", "glinex"),
            ("Rhumb", "include/GeographicLib/Rhumb.hpp", "rhumb"), ("RhumbLine", "include/GeographicLib/Rhumb.hpp", "rline")]


def _class_body(T, txt, cls, rel):
    m = re.search(r"\bclass\s+(?:\w+\s+)?" + cls + r"\s*(?:final\s*)?\{", txt)
    if not m:
        raise T.Missing(f"{rel}: class {cls} not found")
    depth, i = 0, m.end() - 1
    for j in range(i, len(txt)):
        if txt[j] == "{":
            depth += 1
        elif txt[j] == "}":
            depth -= 1
            if depth == 0:
                return txt[i + 1:j]
    raise T.Missing(f"{rel}: class {cls}: unbalanced braces")


def _enum_env(T, body, rel, env0):
    out = dict(T.enum_body(body, "mask", env0))
    return out


def _lstr(T, xs):
    return "[" + ", ".join(T.lean_str(x) for x in xs) + "]"


def gen_overloads(T):
    body = ("namespace GeoVerif.Gen.Overloads\n"
            "structure Ovl where\n  cls : String\n  name : String\n  ret : String\n  returns : Bool\n  vals : List String\n  refs : List String\n"
            "  gen : String\n  ins : List String\n  maskNames : List String\n  mask : Nat\n  outs : List String\n  locals : List String\nderiving Repr, DecidableEq\n")
    envs, rows, info, decls = {}, [], [], []
    for cls, rel, pfx in _CLASSES:
        txt = T.preprocess(rel)
        cb = _class_body(T, txt, cls, rel)
        # enum of the class (the line classes copy the values of their solver: evaluate `Geodesic::LATITUDE` in its environment)
        env0 = dict(T.constexpr_ints(cb))
        if cls == "GeodesicLine": env0.update(envs["Geodesic"])
        if cls == "GeodesicLineExact": env0.update(envs["GeodesicExact"])
        if cls == "RhumbLine": env0.update(envs["Rhumb"])
        # (in the line classes the enumerators are defined as `X = Geodesic::X`; evaluate under fresh names)
        m = re.search(r"enum\s+mask\s*\{([^}]*)\}", cb)
        if not m:
            raise T.Missing(f"{rel}: enum mask of {cls} not found")
        env = {}
        for item in m.group(1).split(","):
            item = item.strip()
            if not item:
                continue
            if "=" not in item:
                raise T.Missing(f"{rel}: {cls}::mask enumerator without a value: {item}")
            k, e = item.split("=", 1)
            scope = dict(env0); scope.update(env)
            if re.search(r"\b\w+::" + re.escape(k.strip()) + r"\b", e):     # X = Solver::X : the solver's value, not ours
                scope = dict(env0)
            env[k.strip()] = T.ceval(e, scope)
        envs[cls] = env
        if pfx in ("gline", "glinex", "rline"):
            for k in (["NONE", "LATITUDE", "LONGITUDE", "AZIMUTH", "DISTANCE", "AREA", "LONG_UNROLL", "ALL"] +
                      ([] if pfx == "rline" else ["STANDARD", "DISTANCE_IN", "REDUCEDLENGTH", "GEODESICSCALE"])):
                if k not in env:
                    raise T.Missing(f"{rel}: {cls}::mask {k}")
                body += f"def {pfx}_{k} : Nat := {env[k]}\n"
        n = 0
        for fm in re.finditer(r"\b(Math::real|void)\s+(" + "|".join(_NAMES) + r")\s*\(([^()]*)\)\s*const\s*\{([^{}]*)\}", cb):
            ret, name, params, fb = fm.group(1), fm.group(2), fm.group(3), fm.group(4)
            vals, refs = [], []
            for p in T.split_top(params):
                p = " ".join(p.split())
                pm = re.fullmatch(r"(?:Math::)?real\s*&\s*(\w*)", p)
                if pm:
                    refs.append(pm.group(1)); continue
                pm = re.fullmatch(r"(?:(?:Math::)?real|bool|unsigned)\s*(\w*)", p)
                if not pm:
                    raise T.Missing(f"{rel}: {cls}::{name}: parameter '{p}' not understood")
                vals.append(pm.group(1))
            stmts = [" ".join(s.split()) for s in fb.split(";") if s.strip()]
            locs = []
            while stmts and re.fullmatch(r"(?:Math::)?real\s+\w+(?:\s*,\s*\w+)*", stmts[0]):
                locs += [x.strip() for x in re.sub(r"^(?:Math::)?real\s+", "", stmts[0]).split(",")]
                stmts = stmts[1:]
            if len(stmts) != 1:
                raise T.Missing(f"{rel}: {cls}::{name}({params}): body is not a single call")
            cm = re.fullmatch(r"(return\s+)?(Gen\w+)\s*\((.*)\)", stmts[0])
            if not cm:
                raise T.Missing(f"{rel}: {cls}::{name}: body '{stmts[0]}' is not a call of a general function")
            args = T.split_top(cm.group(3))
            args = [" ".join(a.split()) for a in args]
            mi = [i for i, a in enumerate(args) if a == "outmask" or re.fullmatch(r"[A-Z_]+(?:\s*\|\s*[A-Z_]+)*", a)]
            if len(mi) != 1:
                raise T.Missing(f"{rel}: {cls}::{name}: cannot find the mask argument in '{stmts[0]}'")
            mi = mi[0]
            mnames = [x.strip() for x in args[mi].split("|")]
            mval = 0
            for x in mnames:
                if x == "outmask":
                    continue
                if x not in env:
                    raise T.Missing(f"{rel}: {cls}::{name}: unknown flag {x}")
                mval |= env[x]
            rows.append("  { cls := %s, name := %s, ret := %s, returns := %s, vals := %s, refs := %s, gen := %s, ins := %s, maskNames := %s, mask := %d, outs := %s, locals := %s }"
                        % (T.lean_str(cls), T.lean_str(name), T.lean_str(ret), "true" if cm.group(1) else "false", _lstr(T, vals), _lstr(T, refs),
                           T.lean_str(cm.group(2)), _lstr(T, args[:mi]), _lstr(T, mnames), mval, _lstr(T, args[mi + 1:]), _lstr(T, locs)))
            n += 1
        if n == 0:
            raise T.Missing(f"{rel}: no inline overloads of {cls} found")
        # declarations of the general functions (defined in the .cpp files): the order of their reference parameters
        nd = 0
        for fm in re.finditer(r"\b(Math::real|void)\s+(Gen\w+)\s*\(([^()]*)\)\s*const\s*;", cb):
            vals, refs = [], []
            for p in T.split_top(fm.group(3)):
                p = " ".join(p.split())
                pm = re.fullmatch(r"(?:Math::)?real\s*&\s*(\w*)", p)
                if pm:
                    refs.append(pm.group(1)); continue
                pm = re.fullmatch(r"(?:(?:Math::)?real|bool|unsigned)\s*(\w*)", p)
                if not pm:
                    raise T.Missing(f"{rel}: {cls}::{fm.group(2)}: parameter '{p}' not understood")
                vals.append(pm.group(1))
            if "salp1" in refs:          # the private sin/cos form of GenInverse
                continue
            decls.append("  (%s, %s, %s, %s, %s)" % (T.lean_str(cls), T.lean_str(fm.group(2)), T.lean_str(fm.group(1)), _lstr(T, vals), _lstr(T, refs)))
            nd += 1
        if nd == 0:
            raise T.Missing(f"{rel}: no declaration of a general function (Gen…) of {cls} found")
        info.append(f"{cls}={n}")
    body += "def table : List Ovl := [\n" + ",\n".join(rows) + "]\n"
    body += "/-- (class, name, return type, value parameters, reference parameters) of the general functions -/\n"
    body += "def decls : List (String × String × String × List String × List String) := [\n" + ",\n".join(decls) + "]\n"
    body += "end GeoVerif.Gen.Overloads\n"
    T.write("Overloads", body)
    T.digest.append("Overloads: " + " ".join(info))


# ---- the masks with which GenInverse calls Lengths ---------------------------------------------------------------

def _tok(s):
    return re.findall(r"[A-Za-z_]\w*|[|&?:()]", s)


class _P:
    """tiny parser for  e := e ? e : e | e '|' e | e '&' e | '(' e ')' | IDENT   (C precedence)"""
    def __init__(self, T, toks, what):
        self.T, self.t, self.i, self.what = T, toks, 0, what

    def peek(self):
        return self.t[self.i] if self.i < len(self.t) else None

    def eat(self, x=None):
        v = self.peek()
        if v is None or (x is not None and v != x):
            raise self.T.Missing(f"{self.what}: cannot parse mask expression {' '.join(self.t)}")
        self.i += 1
        return v

    def cond(self):
        c = self.bor()
        if self.peek() == "?":
            self.eat("?"); a = self.cond(); self.eat(":"); b = self.cond()
            return ("if", c, a, b)
        return c

    def bor(self):
        a = self.band()
        while self.peek() == "|":
            self.eat(); a = ("or", a, self.band())
        return a

    def band(self):
        a = self.prim()
        while self.peek() == "&":
            self.eat(); a = ("and", a, self.prim())
        return a

    def prim(self):
        v = self.eat()
        if v == "(":
            e = self.cond(); self.eat(")"); return e
        if not re.fullmatch(r"[A-Za-z_]\w*", v):
            raise self.T.Missing(f"{self.what}: unexpected token {v} in mask expression")
        return ("id", v)


def _lean(e, pfx, loc):
    k = e[0]
    if k == "id":
        if e[1] == "outmask":
            return "m"
        if e[1] in loc:
            return "(" + loc[e[1]] + ")"
        return f"Mask.{pfx}_{e[1]}"
    if k == "or":
        return f"({_lean(e[1], pfx, loc)} ||| {_lean(e[2], pfx, loc)})"
    if k == "and":
        return f"({_lean(e[1], pfx, loc)} &&& {_lean(e[2], pfx, loc)})"
    return f"(if {_lean(e[1], pfx, loc)} != 0 then {_lean(e[2], pfx, loc)} else {_lean(e[3], pfx, loc)})"


def _function_body(T, txt, header_re, rel):
    ms = list(re.finditer(header_re, txt))
    if not ms:
        raise T.Missing(f"{rel}: /{header_re}/ not found")
    out = []
    for m in ms:
        i = txt.index("{", m.end())
        depth = 0
        for j in range(i, len(txt)):
            if txt[j] == "{": depth += 1
            elif txt[j] == "}":
                depth -= 1
                if depth == 0:
                    out.append(txt[i:j + 1]); break
    return out


def gen_lengthmask(T):
    body = "import GeoVerif.Gen.Mask\nnamespace GeoVerif.Gen.LengthMask\nopen GeoVerif.Gen\n"
    info = []
    for cls, rel, pfx, nout in [("Geodesic", "src/Geodesic.cpp", "geod", 6), ("GeodesicExact", "src/GeodesicExact.cpp", "geodx", 5)]:
        txt = T.preprocess(rel)
        # the long GenInverse (the one with salp1, calp1 among its parameters)
        bodies = [b for b in _function_body(T, txt, r"Math::real\s+" + cls + r"::GenInverse\s*\([^)]*salp1[^)]*\)\s*const", rel)]
        if len(bodies) != 1:
            raise T.Missing(f"{rel}: {cls}::GenInverse (sin/cos form) not found exactly once")
        fb = bodies[0]
        calls = list(re.finditer(r"\bLengths\s*\(", fb))
        if len(calls) != 2:
            raise T.Missing(f"{rel}: expected two calls of Lengths in GenInverse, found {len(calls)}")
        # local `unsigned NAME = expr;` definitions inside GenInverse (e.g. lengthmask)
        loc = {}
        for m in re.finditer(r"\bunsigned\s+(\w+)\s*=\s*([^;]+);", fb):
            if m.group(1) in ("numit",):
                continue
            loc[m.group(1)] = m.group(2)
        masks = []
        for c in calls:
            depth, j = 1, c.end()
            while depth:
                depth += (fb[j] == "(") - (fb[j] == ")"); j += 1
            args = T.split_top(fb[c.end():j - 1])
            cand = [a for a in args if re.search(r"\b(outmask|[A-Z]{4,}|" + "|".join(map(re.escape, loc)) + r")\b", a)] if loc else \
                   [a for a in args if re.search(r"\b(outmask|[A-Z]{4,})\b", a)]
            if len(cand) != 1:
                raise T.Missing(f"{rel}: cannot identify the mask argument of Lengths in '{fb[c.start():j]}'")
            masks.append(cand[0])
        # the wrapper's reduction `outmask &= OUT_MASK` and that of Lengths
        short = _function_body(T, txt, r"Math::real\s+" + cls + r"::GenInverse\s*\([^)]*azi1[^)]*\)\s*const", rel)
        if len(short) != 1:
            raise T.Missing(f"{rel}: {cls}::GenInverse (azimuth form) not found")
        mw = re.search(r"outmask\s*&=\s*(\w+)\s*;", short[0])
        lb = _function_body(T, txt, r"void\s+" + cls + r"::Lengths\s*\([^)]*\)\s*const", rel)
        if len(lb) != 1:
            raise T.Missing(f"{rel}: {cls}::Lengths not found")
        ml = re.search(r"outmask\s*&=\s*(\w+)\s*;", lb[0])
        if not mw or not ml:
            raise T.Missing(f"{rel}: `outmask &= …` of GenInverse / Lengths not found")
        loc_lean = {}
        for k, v in loc.items():
            loc_lean[k] = _lean(_P(T, _tok(v), rel).cond(), pfx, {})
        for nm, expr in zip(["meridian", "newton"], masks):
            p = _P(T, _tok(expr), rel)
            e = p.cond()
            if p.peek() is not None:
                raise T.Missing(f"{rel}: trailing tokens in mask expression '{expr}'")
            body += f"/-- `{' '.join(expr.split())}`" + "".join(f"  with `{k} = {' '.join(v.split())}`" for k, v in loc.items() if re.search(r"\b" + k + r"\b", expr)) + " -/\n"
            body += f"def {pfx}_{nm} (m : Nat) : Nat := {_lean(e, pfx, loc_lean)}\n"
        body += f"def {pfx}_wrapperReduce : Nat := Mask.{pfx}_{mw.group(1)}\n"
        body += f"def {pfx}_lengthsReduce : Nat := Mask.{pfx}_{ml.group(1)}\n"
        info.append(f"{cls}: meridian='{' '.join(masks[0].split())}' newton='{' '.join(masks[1].split())}'" + "".join(f" {k}='{' '.join(v.split())}'" for k, v in loc.items()))
    body += "end GeoVerif.Gen.LengthMask\n"
    T.write("LengthMask", body)
    T.digest.append("LengthMask: " + "; ".join(info))
