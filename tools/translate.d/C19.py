"""C19 translator plug-in: the glue constants of the gravity / magnetic model classes -> Gen/C19Glue.lean.

Extracted as *values* (ints / strings), so that reformatting is harmless:
 * the capability enums `captype` and `mask` of GravityModel.hpp;
 * which mask each GravityCircle member tests (`(_caps & X) != X`), in source order, from src/GravityCircle.cpp;
 * what GravityModel::Circle clears for h != 0 and the capability each constructed part is conditioned on, from src/GravityModel.cpp;
 * the environment variables consulted by DefaultGravityPath / DefaultMagneticPath / Default*Name, in the order of the getenv calls, the
   sub-directory appended, the compile-time default names and data directory;
 * the metadata keys recognised by the two ReadMetadata functions.
"""
import re


def _func_body(T, txt, head_re, rel):
    m = re.search(head_re, txt)
    if not m:
        raise T.Missing(f"{rel}: /{head_re}/ not found")
    i = txt.index("{", m.end())
    depth, j = 0, i
    while j < len(txt):
        if txt[j] == "{":
            depth += 1
        elif txt[j] == "}":
            depth -= 1
            if depth == 0:
                return txt[i:j + 1]
        j += 1
    raise T.Missing(f"{rel}: unbalanced braces after /{head_re}/")


def gen_c19glue(T):
    ls = T.lean_str
    hpp = T.preprocess("include/GeographicLib/GravityModel.hpp")
    cap = dict(T.enum_body(hpp, "captype"))
    msk = dict(T.enum_body(hpp, "mask", cap))
    for k in ["CAP_G", "CAP_T", "CAP_DELTA", "CAP_C", "CAP_GAMMA0", "CAP_GAMMA", "CAP_ALL"]:
        if k not in cap:
            raise T.Missing("GravityModel.hpp: captype " + k)
    for k in ["NONE", "GRAVITY", "DISTURBANCE", "DISTURBING_POTENTIAL", "SPHERICAL_ANOMALY", "GEOID_HEIGHT", "ALL"]:
        if k not in msk:
            raise T.Missing("GravityModel.hpp: mask " + k)
    env = dict(cap); env.update(msk)

    # ---- GravityCircle members: the masks tested, per function, in source order
    rel = "src/GravityCircle.cpp"
    cc = T.preprocess(rel)
    tests = []
    for fn in ["Gravity", "Disturbance", "GeoidHeight", "SphericalAnomaly", "W", "V", "InternalT"]:
        body = _func_body(T, cc, r"GravityCircle::" + fn + r"\s*\(", rel)
        names = re.findall(r"\(\s*_caps\s*&\s*(\w+)\s*\)\s*!=\s*(\w+)", body)
        for a, b in names:
            if a != b:
                raise T.Missing(f"{rel}: {fn} tests (_caps & {a}) != {b}")
            if a not in env:
                raise T.Missing(f"{rel}: {fn} tests unknown mask {a}")
        tests.append((fn, [env[a] for a, _ in names]))
    if [len(v) for _, v in tests] != [0, 0, 1, 1, 0, 1, 2]:
        raise T.Missing(f"{rel}: capability tests per member are {tests} (expected none in Gravity, Disturbance, W; one in GeoidHeight, SphericalAnomaly, V; two in InternalT)")

    # ---- GravityModel::Circle: what is cleared for h != 0, what each part is conditioned on
    rel = "src/GravityModel.cpp"
    gm = T.preprocess(rel)
    body = _func_body(T, gm, r"GravityModel::Circle\s*\(", rel)
    m = re.search(r"if\s*\(\s*h\s*!=\s*0\s*\)\s*caps\s*&=\s*~\s*\(([^)]*)\)\s*;", body)
    if not m:
        raise T.Missing(f"{rel}: `if (h != 0) caps &= ~(...)` not found in GravityModel::Circle")
    hmask = T.ceval(m.group(1), env)
    conds = {}
    for part, pat in [("gamma0", r"caps\s*&\s*(\w+)\s*\?\s*_earth\.SurfaceGravity"), ("gamma", r"if\s*\(\s*caps\s*&\s*(\w+)\s*\)\s*\{\s*_earth\.U"),
                      ("grav", r"caps\s*&\s*(\w+)\s*\?\s*_gravitational\.Circle\s*\(\s*X\s*,\s*Z\s*,\s*true\s*\)"),
                      ("dist", r"caps\s*&\s*(\w+)\s*\?\s*_disturbing\.Circle"), ("distGrad", r"_disturbing\.Circle\s*\(\s*-\s*1\s*,\s*X\s*,\s*Z\s*,\s*\(\s*caps\s*&\s*(\w+)\s*\)\s*!=\s*0\s*\)"),
                      ("corr", r"caps\s*&\s*(\w+)\s*\?\s*_correction\.Circle")]:
        mm = re.search(pat, body)
        if not mm or mm.group(1) not in env:
            raise T.Missing(f"{rel}: GravityModel::Circle: condition of the {part} part not found")
        conds[part] = env[mm.group(1)]

    # ---- lookup: environment variables in the order consulted, sub-directory, defaults
    def lookup(rel, cls, kind):
        txt = T.preprocess(rel)
        pb = _func_body(T, txt, cls + r"::Default" + kind + r"Path\s*\(", rel)
        nb = _func_body(T, txt, cls + r"::Default" + kind + r"Name\s*\(", rel)
        penv = re.findall(r'getenv\s*\(\s*"([^"]+)"\s*\)', pb)
        nenv = re.findall(r'getenv\s*\(\s*"([^"]+)"\s*\)', nb)
        # the first variable is returned as it is (before the second getenv); the last return appends the sub-directory
        first_ret = re.search(r"if\s*\(\s*!\s*path\.empty\s*\(\s*\)\s*\)\s*return\s+path\s*;", pb)
        if len(penv) != 2 or not first_ret or pb.index(penv[1]) < first_ret.start():
            raise T.Missing(f"{rel}: Default{kind}Path: expected getenv(specific); if (!path.empty()) return path; getenv(data); ... (found {penv})")
        last = re.search(r'return\s*\(\s*!\s*path\.empty\s*\(\s*\)\s*\?\s*path\s*:\s*string\s*\(\s*"([^"]*)"\s*\)\s*\)\s*\+\s*"([^"]*)"\s*;', pb)
        if not last:
            raise T.Missing(f"{rel}: Default{kind}Path: final `return (!path.empty() ? path : string(DATA)) + \"/sub\"` not found")
        dn = re.search(r'return\s*!\s*name\.empty\s*\(\s*\)\s*\?\s*name\s*:\s*string\s*\(\s*"([^"]*)"\s*\)\s*;', nb)
        if len(nenv) != 1 or not dn:
            raise T.Missing(f"{rel}: Default{kind}Name: getenv / default name not found")
        rb = _func_body(T, txt, cls + r"::ReadMetadata\s*\(", rel)
        keys = []
        for k in re.findall(r'key\s*==\s*"([^"]*)"', rb):
            if k not in keys:
                keys.append(k)
        return penv, last.group(1), last.group(2), nenv[0], dn.group(1), keys

    g = lookup("src/GravityModel.cpp", "GravityModel", "Gravity")
    mg = lookup("src/MagneticModel.cpp", "MagneticModel", "Magnetic")

    out = "namespace GeoVerif.Gen.C19Glue\n"
    for k in ["CAP_G", "CAP_T", "CAP_DELTA", "CAP_C", "CAP_GAMMA0", "CAP_GAMMA", "CAP_ALL"]:
        out += f"def {k} : Nat := {cap[k]}\n"
    for k in ["NONE", "GRAVITY", "DISTURBANCE", "DISTURBING_POTENTIAL", "SPHERICAL_ANOMALY", "GEOID_HEIGHT", "ALL"]:
        out += f"def mask_{k} : Nat := {msk[k]}\n"
    out += "def memberTests : List (String × List Nat) := [" + ", ".join(f"({ls(fn)}, [{', '.join(str(v) for v in vs)}])" for fn, vs in tests) + "]\n"
    out += f"def heightClears : Nat := {hmask}\n"
    for part in ["grav", "dist", "distGrad", "corr", "gamma0", "gamma"]:
        out += f"def built_{part} : Nat := {conds[part]}\n"
    for nm, t in [("gravity", g), ("magnetic", mg)]:
        out += f"def {nm}PathEnv : List String := [" + ", ".join(ls(s) for s in t[0]) + "]\n"
        out += f"def {nm}DataDefault : String := {ls(t[1])}\ndef {nm}Sub : String := {ls(t[2])}\ndef {nm}NameEnv : String := {ls(t[3])}\ndef {nm}NameDefault : String := {ls(t[4])}\n"
        out += f"def {nm}Keys : List String := [" + ", ".join(ls(s) for s in t[5]) + "]\n"
    out += "end GeoVerif.Gen.C19Glue\n"
    T.write("C19Glue", out)
    T.digest.append(f"C19Glue: captype={cap} mask={msk} memberTests={tests} heightClears={hmask} built={conds} gravity lookup={g[0]}+{g[2]} default {g[4]}@{g[1]} "
                    f"magnetic lookup={mg[0]}+{mg[2]} default {mg[4]}@{mg[1]}; {len(g[5])}/{len(mg[5])} metadata keys")
