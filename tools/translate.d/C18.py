"""C18 translator plug-in: the defining constants of the OSGB transverse Mercator wrapper -> Gen/OSGBC.lean.

`OSGB::EquatorialRadius/Flattening/CentralScale/OriginLatitude/OriginLongitude/FalseNorthing/FalseEasting` are inline
functions of include/GeographicLib/OSGB.hpp; the integer literals of their return expressions are extracted as
*values* (constant sub-expressions such as `48401603 - 100000000` are evaluated), so reformatting is harmless."""
import re


def _body(T, txt, name):
    m = re.search(r"\b" + name + r"\s*\(\s*\)\s*\{(.*?)\}", txt, flags=re.S)
    if not m:
        raise T.Missing("OSGB.hpp: inline function OSGB::" + name + "() not found")
    r = re.search(r"\breturn\b(.*?);", m.group(1), flags=re.S)
    if not r:
        raise T.Missing("OSGB.hpp: OSGB::" + name + "() has no return expression")
    return " ".join(r.group(1).split())


def _pow10(T, name, e):
    """`pow(real(B), real(N) / D)` optionally `* real(M)` -> (B, N, D, M)"""
    m = re.fullmatch(r"pow\s*\(\s*real\s*\(([^()]*)\)\s*,\s*real\s*\(([^()]*)\)\s*/\s*([^()*]*?)\s*\)\s*(?:\*\s*real\s*\(([^()]*)\)\s*)?", e)
    if not m:
        raise T.Missing("OSGB.hpp: OSGB::" + name + "() is not of the form pow(real(B), real(N)/D) [* real(M)]: " + e)
    b, n, d = (T.ceval(x, {}) for x in m.group(1, 2, 3))
    mul = T.ceval(m.group(4), {}) if m.group(4) else 1
    return int(b), int(n), int(d), int(mul)


def _li(v):
    return f"({v})" if v < 0 else str(v)


def gen_osgbconst(T):
    txt = T.preprocess("include/GeographicLib/OSGB.hpp")
    ab, an, ad, am = _pow10(T, "EquatorialRadius", _body(T, txt, "EquatorialRadius"))
    kb, kn, kd, km = _pow10(T, "CentralScale", _body(T, txt, "CentralScale"))
    fe = _body(T, txt, "Flattening")
    m = re.fullmatch(r"real\s*\(([^()]*)\)\s*/\s*real\s*\(([^()]*)\)", fe)
    if not m:
        raise T.Missing("OSGB.hpp: OSGB::Flattening() is not of the form real(N) / real(D): " + fe)
    fnum, fden = int(T.ceval(m.group(1), {})), int(T.ceval(m.group(2), {}))
    vals = {}
    for nm in ["OriginLatitude", "OriginLongitude", "FalseNorthing", "FalseEasting"]:
        e = _body(T, txt, nm)
        mm = re.fullmatch(r"real\s*\(([^()]*)\)", e)
        if not mm:
            raise T.Missing("OSGB.hpp: OSGB::" + nm + "() is not of the form real(N): " + e)
        vals[nm] = int(T.ceval(mm.group(1), {}))
    # the wrapper itself: x += FalseEasting(); y += computenorthoffset();  /  x -= ...; y -= ...
    fw = re.search(r"void\s+Forward\s*\([^)]*real\s*&\s*gamma[^)]*\)\s*\{(.*?)\}", txt, flags=re.S)
    rv = re.search(r"void\s+Reverse\s*\([^)]*real\s*&\s*gamma[^)]*\)\s*\{(.*?)\}", txt, flags=re.S)
    if not fw or not rv:
        raise T.Missing("OSGB.hpp: inline OSGB::Forward/Reverse (6-argument forms) not found")
    body = "namespace GeoVerif.Gen.OSGBC\n"
    body += f"def a_base : Int := {_li(ab)}\ndef a_lognum : Int := {_li(an)}\ndef a_logden : Int := {_li(ad)}\ndef a_mul : Int := {_li(am)}\n"
    body += f"def k0_base : Int := {_li(kb)}\ndef k0_lognum : Int := {_li(kn)}\ndef k0_logden : Int := {_li(kd)}\ndef k0_mul : Int := {_li(km)}\n"
    body += f"def f_num : Int := {_li(fnum)}\ndef f_den : Int := {_li(fden)}\n"
    body += f"def lat0 : Int := {_li(vals['OriginLatitude'])}\ndef lon0 : Int := {_li(vals['OriginLongitude'])}\n"
    body += f"def falseNorthing : Int := {_li(vals['FalseNorthing'])}\ndef falseEasting : Int := {_li(vals['FalseEasting'])}\n"
    body += "end GeoVerif.Gen.OSGBC\n"
    T.write("OSGBC", body)
    T.digest.append(f"OSGBC: a={am}*{ab}^({an}/{ad}) f={fnum}/{fden} k0={kb}^({kn}/{kd}) lat0={vals['OriginLatitude']} lon0={vals['OriginLongitude']} "
                    f"FN={vals['FalseNorthing']} FE={vals['FalseEasting']}")
