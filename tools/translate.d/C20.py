"""C20 translator plug-in: the constants of the PGM header parser in Geoid::Geoid (src/Geoid.cpp) -> Gen/GeoidH.lean.

Extracted as *values* (strings / ints), in source order: the magic string compared with the first line, the comment keys
(`key == "..."` and the `_cubic ? "...": "..."` pairs), the defaults of description / date, the texts of the
`GeographicErr`s thrown by the constructor (= the order of the validation tests), pixel_size_, and the integer
constants that appear in the CacheArea / height index arithmetic are left to Gen/GeoidC.lean (gen_geoid)."""
import re


def gen_geoidhdr(T):
    txt = T.preprocess("src/Geoid.cpp")
    m = re.search(r"Geoid::Geoid\s*\(", txt)
    e = re.search(r"Math::real\s+Geoid::height\s*\(", txt)
    if not m or not e or e.start() < m.start():
        raise T.Missing("src/Geoid.cpp: constructor Geoid::Geoid(...) ... Geoid::height not found")
    body = txt[m.start():e.start()]
    mm = re.search(r'getline\s*\(\s*_file\s*,\s*s\s*\)\s*&&\s*s\s*==\s*"([^"]*)"', body)
    if not mm:
        raise T.Missing('src/Geoid.cpp: magic test `getline(_file, s) && s == "P5"` not found')
    magic = mm.group(1)
    keys = re.findall(r'key\s*==\s*"([^"]*)"', body)
    pairs = re.findall(r'key\s*==\s*\(\s*_cubic\s*\?\s*"([^"]*)"\s*:\s*"([^"]*)"\s*\)', body)
    if len(keys) < 4 or len(pairs) != 2:
        raise T.Missing(f"src/Geoid.cpp: comment keys not found (plain {keys}, cubic/bilinear pairs {pairs})")
    # `key == "Description" || key == "DateTime"` appears twice for Description (selection of the target): keep first occurrences in order
    seen, ukeys = set(), []
    for k in keys:
        if k not in seen:
            seen.add(k); ukeys.append(k)
    msgs = [s.rstrip() for s in re.findall(r'GeographicErr\s*\(\s*"([^"]*)"', body)]
    if len(msgs) < 10:
        raise T.Missing(f"src/Geoid.cpp: constructor exceptions not found ({msgs})")
    d = re.search(r'_description\s*=\s*"([^"]*)"', body)
    t = re.search(r'_datetime\s*=\s*"([^"]*)"', body)
    if not d or not t:
        raise T.Missing("src/Geoid.cpp: defaults of _description / _datetime not found")
    ci = T.class_ints("include/GeographicLib/Geoid.hpp", ["pixel_size_"])
    ls = T.lean_str
    out = "namespace GeoVerif.Gen.GeoidH\n"
    out += f"def magic : String := {ls(magic)}\n"
    out += "def keys : List String := [" + ", ".join(ls(k) for k in ukeys) + "]\n"
    out += "def cubicKeys : List (String × String) := [" + ", ".join(f"({ls(a)}, {ls(b)})" for a, b in pairs) + "]\n"
    out += "def messages : List String := [" + ", ".join(ls(s) for s in msgs) + "]\n"
    out += f"def descDefault : String := {ls(d.group(1))}\ndef dateDefault : String := {ls(t.group(1))}\n"
    out += f"def pixelSize : Nat := {ci['pixel_size_']}\n"
    out += "end GeoVerif.Gen.GeoidH\n"
    T.write("GeoidH", out)
    T.digest.append(f"GeoidHeader: magic={magic} keys={ukeys}+{pairs} {len(msgs)} constructor exceptions pixel_size={ci['pixel_size_']}")
