"""Translator plug-in for C06: the Krueger series tables of TransverseMercator.cpp (active #if branch)."""
import re
from fractions import Fraction


def _named_array(T, txt, name):
    # `static const real <name>[] = { ... };` inside the TransverseMercator constructor (name-anchored)
    m = re.search(r"TransverseMercator::TransverseMercator\s*\(", txt)
    if not m:
        raise T.Missing("constructor TransverseMercator::TransverseMercator not found")
    sub = txt[m.end():]
    body = T.brace_array(sub, r"\b" + name + r"\s*\[\s*\]\s*=\s*\{")
    vals = [Fraction(T.ceval(x, {}, rational=True)) for x in T.split_top(body)]
    if not vals:
        raise T.Missing(f"table {name} is empty")
    return vals


def gen_tmseries(T):
    txt = T.preprocess("src/TransverseMercator.cpp")
    b1 = _named_array(T, txt, "b1coeff")
    alp = _named_array(T, txt, "alpcoeff")
    bet = _named_array(T, txt, "betcoeff")
    # maxpow_ from the size N(N+3)/2 of the alp table
    order = [N for N in range(1, 16) if N * (N + 3) // 2 == len(alp)]
    if len(order) != 1 or len(bet) != len(alp) or len(b1) != order[0] // 2 + 2:
        raise T.Missing(f"table sizes inconsistent: b1 {len(b1)}, alp {len(alp)}, bet {len(bet)}")
    order = order[0]
    body = "namespace GeoVerif.Gen.TMSeries\n"
    body += f"def b1coeff : List Rat := {T.lean_ratlist(b1)}\n"
    body += f"def alpcoeff : List Rat := {T.lean_ratlist(alp)}\n"
    body += f"def betcoeff : List Rat := {T.lean_ratlist(bet)}\n"
    body += f"def order : Nat := {order}\n"
    body += "end GeoVerif.Gen.TMSeries\n"
    T.write("TMSeries", body)
    T.digest.append(f"TMSeries: order={order} b1={[str(v) for v in b1]} alp[0..6]={[str(v) for v in alp[:7]]} bet[0..6]={[str(v) for v in bet[:7]]}")


def gen_tmexact(T):
    """iteration cap of the Newton inversions of TransverseMercatorExact (header constant numit_)"""
    vals = T.class_ints("include/GeographicLib/TransverseMercatorExact.hpp", ["numit_"])
    numit = int(vals["numit_"])
    if not (0 < numit < 1000):
        raise T.Missing(f"TransverseMercatorExact::numit_ = {numit} is not a plausible iteration cap")
    body = "namespace GeoVerif.Gen.TMExact\n"
    body += f"def numit : Nat := {numit}\n"
    body += "end GeoVerif.Gen.TMExact\n"
    T.write("TMExact", body)
    T.digest.append(f"TMExact: numit_={numit}")
