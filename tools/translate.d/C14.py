"""Translator plug-in of property C14: Gen/Effects.lean (effect table of the library, extracted from the current sources by
tools/effects.py through the clang AST), the AuxLatitude constructors' prefill loops and the FFT sizes reachable from GeodesicExact."""
import os, re, sys
sys.path.insert(0, os.path.dirname(os.path.dirname(os.path.abspath(__file__))))
import effects


def _s(x):
    return '"' + x.replace("\\", "\\\\").replace('"', '\\"') + '"'


def _ctor_bodies(T, txt, cls):
    out = []
    for m in re.finditer(cls + r"::" + cls + r"\s*\(([^)]*)\)\s*:", txt):
        i, depth = m.end(), 0
        while i < len(txt):            # the body is the first `{` outside parentheses after the initialiser list
            ch = txt[i]
            if ch == "(":
                depth += 1
            elif ch == ")":
                depth -= 1
            elif ch == "{" and depth == 0:
                break
            i += 1
        j, d = i, 0
        while j < len(txt):
            if txt[j] == "{":
                d += 1
            elif txt[j] == "}":
                d -= 1
                if d == 0:
                    break
            j += 1
        out.append((m.group(1).strip(), txt[i:j + 1]))
    return out


def _c_eval(expr, env):
    """tiny evaluator for the integer C expressions met here (ternary, %, /, <<, ==)"""
    e = " ".join(expr.split())
    for _ in range(8):
        e2 = re.sub(r"\(([^()?:]+)\?([^()?:]+):([^()?:]+)\)", r"((\2) if (\1) else (\3))", e)
        if e2 == e:
            break
        e = e2
    e = re.sub(r"(?<![/])/(?![/])", "//", e)
    if not re.fullmatch(r"[\w\s()+\-*/%<>=!]+|.*\bif\b.*", e):
        raise ValueError(expr)
    return int(eval(e, {"__builtins__": {}}, dict(env)))


def gen_effects(T):
    repo = T.REPO
    try:
        a = effects.analyse(repo)
    except effects.ExtractError as e:
        raise T.Missing(str(e))
    # ---- locations and functions --------------------------------------------------------------------------------
    body = "import GeoVerif.Model.Effects\nnamespace GeoVerif.Gen.Effects\nopen GeoVerif.Effects\n\n"
    kinds = {"mutableMember": ".mutableMember", "staticLocal": ".staticLocal", "staticMember": ".staticMember", "global": ".global"}
    locs = sorted(a["locations"].items())
    body += "/-- every `mutable` member and every variable of static storage duration of the library (constexpr ones omitted) -/\n"
    body += "def locations : List LocDecl := [\n" + ",\n".join(
        f"  ⟨{_s(l)}, {kinds[i['kind']]}, {'true' if i['isConst'] else 'false'}, {_s(i['file'])}⟩" for l, i in locs if not i["constexpr"]) + "]\n\n"

    def atom(x):
        if x[0] == "miss":
            return ".miss"
        if x[0] == "flag":
            return f".flagFalse {_s(x[1])}"
        return ".switchDefault [" + ", ".join(str(c) for c in x[1]) + "]"

    def wrec(w):
        return f"⟨{_s(w[0])}, [{', '.join(atom(x) for x in w[1])}]⟩"
    fns = a["functions"]
    body += "/-- (function, class, static?, public (not protected/private)?, tracked locations read, tracked locations written with the recognised guards), for every const\n"
    body += "member function and every static member function that has a body in the library; effects are transitive -/\n"
    body += "def functions : List FnEffect := [\n" + ",\n".join(
        f"  ⟨{_s(e['fn'])}, {_s(e['cls'])}, {'true' if e['static'] else 'false'}, {'true' if e['public'] else 'false'}, [{', '.join(_s(r) for r in e['reads'])}], [{', '.join(wrec(w) for w in e['writes'])}]⟩"
        for e in fns) + "]\n\n"
    body += "def constCasts : List String := [" + ", ".join(_s(c) for c in a["constcasts"]) + "]\n\n"
    # ---- extraction-side facts beyond the table ---------------------------------------------------------------------------
    b = lambda x: "true" if x else "false"
    sl = [(l, i) for l, i in locs if i["kind"] == "staticLocal"]       # constexpr ones included here
    body += "/-- every function-local variable of static storage duration (all translation units + the all-headers unit) -/\n"
    body += "def staticLocals : List StaticLocal := [\n" + ",\n".join(
        f"  ⟨{_s(l)}, {_s(i['file'])}, {b(i['isConst'])}, {b(i.get('mutablePointee'))}, {_s(i.get('init', 'none'))}⟩" for l, i in sl) + "]\n\n"
    body += "/-- data members that are pointers / references / iterators / smart pointers -/\n"
    body += "def ptrMembers : List PtrMember := [\n" + ",\n".join(
        f"  ⟨{_s(q)}, {_s(t)}, {b(pc)}, {_s(k)}, {_s(f)}⟩" for (q, t, pc, k, f) in a["ptrfields"]) + "]\n\n"
    body += "/-- (const member function, pointer member, how): writes / non-const calls through a pointer member inside a const member function -/\n"
    body += "def ptrWrites : List (String × String × String) := [" + ", ".join(f"({_s(x)}, {_s(y)}, {_s(z)})" for x, y, z in a["ptrwrites"]) + "]\n\n"
    body += "/-- EVERY function with a body (constructors, non-const members, free functions included) that writes a variable of static storage, transitively -/\n"
    body += "def staticWriters : List (String × List String) := [" + ", ".join(f"({_s(x)}, [{', '.join(_s(l) for l in ls)}])" for x, ls in a["static_writers"]) + "]\n\n"
    body += "/-- (class, static locations read, static locations written) by the constructors of the class, transitively -/\n"
    body += "def ctorStatics : List (String × List String × List String) := [" + ", ".join(
        f"({_s(c)}, [{', '.join(_s(l) for l in rs)}], [{', '.join(_s(l) for l in ws)}])" for c, rs, ws in a["ctor_statics"]) + "]\n\n"
    ts = a["textscan"]
    body += "/-- clang-independent text scan of every file under include/GeographicLib and src: declarators following the keyword `mutable` -/\n"
    body += "def mutableTextScan : List (String × String) := [" + ", ".join(f"({_s(f)}, {_s(n)})" for f, n in ts["mutable"]) + "]\n"
    body += "def constCastTextScan : List String := [" + ", ".join(_s(f) for f in ts["const_cast"]) + "]\n"
    body += f"def scannedFiles : Nat := {ts['nfiles']}\n"
    body += f"/-- translation units analysed (src/*.cpp + one unit including every public header with the class templates instantiated) and the headers it includes -/\n"
    body += f"def unitsAnalysed : Nat := {len(a['units'])}\ndef headersIncluded : List String := [" + ", ".join(_s(h) for h in a["headers"]) + "]\n\n"
    # ---- AuxLatitude: which coefficient blocks each constructor fills ---------------------------------------------------
    hdr = T.preprocess("include/GeographicLib/AuxLatitude.hpp")
    env = dict(T.enum_body(hdr, "aux"))
    if "AUXNUMBER" not in env:
        raise T.Missing("AuxLatitude::aux::AUXNUMBER")
    src = T.preprocess("src/AuxLatitude.cpp")
    ctors = _ctor_bodies(T, src, "AuxLatitude")
    if not ctors:
        raise T.Missing("no AuxLatitude constructor found")
    loop = re.compile(r"for\s*\(\s*int\s+(\w+)\s*=\s*([\w:]+)\s*;\s*\1\s*<\s*([\w:]+)\s*;\s*\+\+\1\s*\)\s*\{?\s*"
                      r"for\s*\(\s*int\s+(\w+)\s*=\s*([\w:]+)\s*;\s*\4\s*<\s*([\w:]+)\s*;\s*\+\+\4\s*\)\s*\{?\s*"
                      r"(?:if\s*\(\s*(\w+)\s*!=\s*(\w+)\s*\)\s*\{?\s*)?fillcoeff\s*\(\s*(\w+)\s*,\s*(\w+)\s*,\s*ind\s*\(\s*(\w+)\s*,\s*(\w+)\s*\)\s*\)\s*;")
    filled = []
    for params, b in ctors:
        blocks = set()
        for m in loop.finditer(b):
            v1, lo1, hi1, v2, lo2, hi2, ne1, ne2, fa, fb, ia, ib = m.groups()
            r1 = range(T.ceval(lo1, env), T.ceval(hi1, env)); r2 = range(T.ceval(lo2, env), T.ceval(hi2, env))
            for x in r1:
                for y in r2:
                    val = {v1: x, v2: y}
                    if ne1 and val.get(ne1) == val.get(ne2):
                        continue
                    if ia in val and ib in val and fa in val and fb in val and (val[fa], val[fb]) == (val[ib], val[ia]):
                        blocks.add((val[ia], val[ib]))          # block ind(auxout, auxin), filled with the (auxin, auxout) series
        filled.append((params, sorted(blocks)))
    body += f"/-- number of auxiliary latitudes (AuxLatitude::AUXNUMBER) -/\ndef auxNumber : Nat := {env['AUXNUMBER']}\n"
    body += "/-- per constructor of AuxLatitude: the coefficient blocks (auxout, auxin) its body fills eagerly -/\n"
    body += "def auxFilled : List (String × List (Nat × Nat)) := [\n" + ",\n".join(
        f"  ({_s(p)}, [{', '.join(f'({x}, {y})' for x, y in bl)}])" for p, bl in filled) + "]\n\n"
    # ---- FFT sizes reachable from GeodesicExact ----------------------------------------------------------------------------
    gx = T.preprocess("src/GeodesicExact.cpp")
    codes = [T.ceval(x, {}) for x in T.split_top(T.brace_array(gx, r"\bnarr\s*\[[^\]]*\]\s*=\s*\{"))]
    m = re.search(r"int\s+N\s*=\s*int\s*\(\s*narr\s*\[\s*j\s*\]\s*\)\s*;\s*N\s*=\s*([^;]+);", gx)
    if not m:
        raise T.Missing("GeodesicExact.cpp: decoding of narr[] into the DST size not found")
    try:
        sizesN = sorted({_c_eval(m.group(1), {"N": c}) for c in codes})
    except Exception as e:
        raise T.Missing(f"GeodesicExact.cpp: cannot evaluate the narr decoding '{m.group(1)}': {e}")
    dst = T.preprocess("src/DST.cpp")
    cast = r"(?:(?:std::)?size_t\s*\(\s*|static_cast\s*<[^>]*>\s*\(\s*)?"   # an integer-widening cast around _nN is harmless
    mult = set(int(x) for x in re.findall(r"fft_t\s*\(\s*(\d+)\s*\*\s*" + cast + r"_nN", dst) + re.findall(r"assign\s*\(\s*(\d+)\s*\*\s*" + cast + r"_nN", dst))
    if len(mult) != 1:
        raise T.Missing(f"DST.cpp: FFT length as a multiple of _nN not found / not unique: {sorted(mult)}")
    mult = mult.pop()
    body += f"/-- DST sizes N selected by GeodesicExact (decoded entries of narr[]) -/\ndef dstSizes : List Nat := [{', '.join(map(str, sizesN))}]\n"
    body += f"/-- DST uses an FFT of length {mult}·N -/\ndef fftMultiplier : Nat := {mult}\n"
    body += "def fftSizes : List Nat := dstSizes.map (fftMultiplier * ·)\n\nend GeoVerif.Gen.Effects\n"
    T.write("Effects", body)
    nw = [e for e in fns if e["writes"]]
    T.digest.append(f"Effects: {len(fns)} const/static member functions ({a['nfuncs']} bodies), {len(nw)} with writes on tracked locations; "
                    f"{sum(1 for l, i in locs if i['kind'] == 'mutableMember')} mutable members, "
                    f"non-const statics: {[l for l, i in locs if i['kind'] != 'mutableMember' and not i['isConst']]}; const_cast: {len(a['constcasts'])}; "
                    f"{len(sl)} function-local statics; pointer members {[x[0] for x in a['ptrfields']]}, writes through them: {len(a['ptrwrites'])}; "
                    f"classes whose constructors touch static state: {[c for c, _, _ in a['ctor_statics']]}; text scan: {len(ts['mutable'])} mutable declarators in {ts['nfiles']} files; "
                    f"AuxLatitude ctors fill {[len(bl) for _, bl in filled]} of {env['AUXNUMBER'] * (env['AUXNUMBER'] - 1)} blocks; FFT sizes {[mult * n for n in sizesN]}")
