#!/usr/bin/env python3
"""update_baseline.py: record the digest of the library sources at /repo's HEAD working tree in baseline_src.json
(run after every fix: commit to /repo; the quick tier explores four times as many cases when the tree differs from it)"""
import json, os, subprocess, sys
sys.path.insert(0, os.path.dirname(os.path.abspath(__file__)))
import gv
head = subprocess.run(["git", "-C", gv.REPO, "rev-parse", "HEAD"], capture_output=True, text=True).stdout.strip()
dirty = subprocess.run(["git", "-C", gv.REPO, "status", "--short", "--untracked-files=no"], capture_output=True, text=True).stdout.strip()
assert not dirty, "commit or undo changes to tracked files of the library first"
json.dump({"digest": gv.source_digest(), "repo_head": head}, open(os.path.join(gv.VERIF, "baseline_src.json"), "w"), indent=1)
print("baseline", head)
