#!/bin/bash
# usage: _run.sh <tier> <seedbase> <nproc>
cd /tmp/w/C13
export ASAN_OPTIONS=detect_leaks=0:abort_on_error=0:allocator_may_return_null=1 UBSAN_OPTIONS=print_stacktrace=1
EXE=$(python3 _build.py 2>&1 | grep "^/tmp" | tail -1)
[ -z "$EXE" ] && { python3 _build.py | grep -E "error" | head; exit 1; }
for k in $(seq 0 $(($3-1))); do ( timeout 1800 $EXE gen $1 $(($2*100+k)) > _run$k.lines 2> _run$k.err; echo "rc=$? k=$k lines=$(wc -l < _run$k.lines)" ) & done; wait
for k in $(seq 0 $(($3-1))); do grep -v "^ *#[0-9]" _run$k.err | grep -v "^$" | head -4; done
grep -h "^#BAD" _run*.lines | cut -c1-400 | sort | uniq -c | sort -rn | head -${4:-40}
